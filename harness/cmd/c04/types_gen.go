// Code generated once by a small script (see the header of main.go); static afterwards. DO NOT EDIT.
//
// cSmML: the component for slot S (name "cS") whose by-name injection points are the other slots in
// mask M (bit j set = a required point `wire:"c<j>"`), L = l (LazyInit) | e (eager).
package main

import "github.com/go-kid/ioc/definition"

type c0m0e struct {
	*base
}

func (x *c0m0e) deps() []depRef { return []depRef{} }

type c0m0l struct {
	*base
	definition.LazyInitComponent
}

func (x *c0m0l) deps() []depRef { return []depRef{} }

type c0m1e struct {
	*base
	D1 node `wire:"c1"`
}

func (x *c0m1e) deps() []depRef { return []depRef{{1, x.D1}} }

type c0m1l struct {
	*base
	definition.LazyInitComponent
	D1 node `wire:"c1"`
}

func (x *c0m1l) deps() []depRef { return []depRef{{1, x.D1}} }

type c0m2e struct {
	*base
	D2 node `wire:"c2"`
}

func (x *c0m2e) deps() []depRef { return []depRef{{2, x.D2}} }

type c0m2l struct {
	*base
	definition.LazyInitComponent
	D2 node `wire:"c2"`
}

func (x *c0m2l) deps() []depRef { return []depRef{{2, x.D2}} }

type c0m3e struct {
	*base
	D1 node `wire:"c1"`
	D2 node `wire:"c2"`
}

func (x *c0m3e) deps() []depRef { return []depRef{{1, x.D1}, {2, x.D2}} }

type c0m3l struct {
	*base
	definition.LazyInitComponent
	D1 node `wire:"c1"`
	D2 node `wire:"c2"`
}

func (x *c0m3l) deps() []depRef { return []depRef{{1, x.D1}, {2, x.D2}} }

type c0m4e struct {
	*base
	D3 node `wire:"c3"`
}

func (x *c0m4e) deps() []depRef { return []depRef{{3, x.D3}} }

type c0m4l struct {
	*base
	definition.LazyInitComponent
	D3 node `wire:"c3"`
}

func (x *c0m4l) deps() []depRef { return []depRef{{3, x.D3}} }

type c0m5e struct {
	*base
	D1 node `wire:"c1"`
	D3 node `wire:"c3"`
}

func (x *c0m5e) deps() []depRef { return []depRef{{1, x.D1}, {3, x.D3}} }

type c0m5l struct {
	*base
	definition.LazyInitComponent
	D1 node `wire:"c1"`
	D3 node `wire:"c3"`
}

func (x *c0m5l) deps() []depRef { return []depRef{{1, x.D1}, {3, x.D3}} }

type c0m6e struct {
	*base
	D2 node `wire:"c2"`
	D3 node `wire:"c3"`
}

func (x *c0m6e) deps() []depRef { return []depRef{{2, x.D2}, {3, x.D3}} }

type c0m6l struct {
	*base
	definition.LazyInitComponent
	D2 node `wire:"c2"`
	D3 node `wire:"c3"`
}

func (x *c0m6l) deps() []depRef { return []depRef{{2, x.D2}, {3, x.D3}} }

type c0m7e struct {
	*base
	D1 node `wire:"c1"`
	D2 node `wire:"c2"`
	D3 node `wire:"c3"`
}

func (x *c0m7e) deps() []depRef { return []depRef{{1, x.D1}, {2, x.D2}, {3, x.D3}} }

type c0m7l struct {
	*base
	definition.LazyInitComponent
	D1 node `wire:"c1"`
	D2 node `wire:"c2"`
	D3 node `wire:"c3"`
}

func (x *c0m7l) deps() []depRef { return []depRef{{1, x.D1}, {2, x.D2}, {3, x.D3}} }

type c1m0e struct {
	*base
}

func (x *c1m0e) deps() []depRef { return []depRef{} }

type c1m0l struct {
	*base
	definition.LazyInitComponent
}

func (x *c1m0l) deps() []depRef { return []depRef{} }

type c1m1e struct {
	*base
	D0 node `wire:"c0"`
}

func (x *c1m1e) deps() []depRef { return []depRef{{0, x.D0}} }

type c1m1l struct {
	*base
	definition.LazyInitComponent
	D0 node `wire:"c0"`
}

func (x *c1m1l) deps() []depRef { return []depRef{{0, x.D0}} }

type c1m2e struct {
	*base
	D2 node `wire:"c2"`
}

func (x *c1m2e) deps() []depRef { return []depRef{{2, x.D2}} }

type c1m2l struct {
	*base
	definition.LazyInitComponent
	D2 node `wire:"c2"`
}

func (x *c1m2l) deps() []depRef { return []depRef{{2, x.D2}} }

type c1m3e struct {
	*base
	D0 node `wire:"c0"`
	D2 node `wire:"c2"`
}

func (x *c1m3e) deps() []depRef { return []depRef{{0, x.D0}, {2, x.D2}} }

type c1m3l struct {
	*base
	definition.LazyInitComponent
	D0 node `wire:"c0"`
	D2 node `wire:"c2"`
}

func (x *c1m3l) deps() []depRef { return []depRef{{0, x.D0}, {2, x.D2}} }

type c1m4e struct {
	*base
	D3 node `wire:"c3"`
}

func (x *c1m4e) deps() []depRef { return []depRef{{3, x.D3}} }

type c1m4l struct {
	*base
	definition.LazyInitComponent
	D3 node `wire:"c3"`
}

func (x *c1m4l) deps() []depRef { return []depRef{{3, x.D3}} }

type c1m5e struct {
	*base
	D0 node `wire:"c0"`
	D3 node `wire:"c3"`
}

func (x *c1m5e) deps() []depRef { return []depRef{{0, x.D0}, {3, x.D3}} }

type c1m5l struct {
	*base
	definition.LazyInitComponent
	D0 node `wire:"c0"`
	D3 node `wire:"c3"`
}

func (x *c1m5l) deps() []depRef { return []depRef{{0, x.D0}, {3, x.D3}} }

type c1m6e struct {
	*base
	D2 node `wire:"c2"`
	D3 node `wire:"c3"`
}

func (x *c1m6e) deps() []depRef { return []depRef{{2, x.D2}, {3, x.D3}} }

type c1m6l struct {
	*base
	definition.LazyInitComponent
	D2 node `wire:"c2"`
	D3 node `wire:"c3"`
}

func (x *c1m6l) deps() []depRef { return []depRef{{2, x.D2}, {3, x.D3}} }

type c1m7e struct {
	*base
	D0 node `wire:"c0"`
	D2 node `wire:"c2"`
	D3 node `wire:"c3"`
}

func (x *c1m7e) deps() []depRef { return []depRef{{0, x.D0}, {2, x.D2}, {3, x.D3}} }

type c1m7l struct {
	*base
	definition.LazyInitComponent
	D0 node `wire:"c0"`
	D2 node `wire:"c2"`
	D3 node `wire:"c3"`
}

func (x *c1m7l) deps() []depRef { return []depRef{{0, x.D0}, {2, x.D2}, {3, x.D3}} }

type c2m0e struct {
	*base
}

func (x *c2m0e) deps() []depRef { return []depRef{} }

type c2m0l struct {
	*base
	definition.LazyInitComponent
}

func (x *c2m0l) deps() []depRef { return []depRef{} }

type c2m1e struct {
	*base
	D0 node `wire:"c0"`
}

func (x *c2m1e) deps() []depRef { return []depRef{{0, x.D0}} }

type c2m1l struct {
	*base
	definition.LazyInitComponent
	D0 node `wire:"c0"`
}

func (x *c2m1l) deps() []depRef { return []depRef{{0, x.D0}} }

type c2m2e struct {
	*base
	D1 node `wire:"c1"`
}

func (x *c2m2e) deps() []depRef { return []depRef{{1, x.D1}} }

type c2m2l struct {
	*base
	definition.LazyInitComponent
	D1 node `wire:"c1"`
}

func (x *c2m2l) deps() []depRef { return []depRef{{1, x.D1}} }

type c2m3e struct {
	*base
	D0 node `wire:"c0"`
	D1 node `wire:"c1"`
}

func (x *c2m3e) deps() []depRef { return []depRef{{0, x.D0}, {1, x.D1}} }

type c2m3l struct {
	*base
	definition.LazyInitComponent
	D0 node `wire:"c0"`
	D1 node `wire:"c1"`
}

func (x *c2m3l) deps() []depRef { return []depRef{{0, x.D0}, {1, x.D1}} }

type c2m4e struct {
	*base
	D3 node `wire:"c3"`
}

func (x *c2m4e) deps() []depRef { return []depRef{{3, x.D3}} }

type c2m4l struct {
	*base
	definition.LazyInitComponent
	D3 node `wire:"c3"`
}

func (x *c2m4l) deps() []depRef { return []depRef{{3, x.D3}} }

type c2m5e struct {
	*base
	D0 node `wire:"c0"`
	D3 node `wire:"c3"`
}

func (x *c2m5e) deps() []depRef { return []depRef{{0, x.D0}, {3, x.D3}} }

type c2m5l struct {
	*base
	definition.LazyInitComponent
	D0 node `wire:"c0"`
	D3 node `wire:"c3"`
}

func (x *c2m5l) deps() []depRef { return []depRef{{0, x.D0}, {3, x.D3}} }

type c2m6e struct {
	*base
	D1 node `wire:"c1"`
	D3 node `wire:"c3"`
}

func (x *c2m6e) deps() []depRef { return []depRef{{1, x.D1}, {3, x.D3}} }

type c2m6l struct {
	*base
	definition.LazyInitComponent
	D1 node `wire:"c1"`
	D3 node `wire:"c3"`
}

func (x *c2m6l) deps() []depRef { return []depRef{{1, x.D1}, {3, x.D3}} }

type c2m7e struct {
	*base
	D0 node `wire:"c0"`
	D1 node `wire:"c1"`
	D3 node `wire:"c3"`
}

func (x *c2m7e) deps() []depRef { return []depRef{{0, x.D0}, {1, x.D1}, {3, x.D3}} }

type c2m7l struct {
	*base
	definition.LazyInitComponent
	D0 node `wire:"c0"`
	D1 node `wire:"c1"`
	D3 node `wire:"c3"`
}

func (x *c2m7l) deps() []depRef { return []depRef{{0, x.D0}, {1, x.D1}, {3, x.D3}} }

type c3m0e struct {
	*base
}

func (x *c3m0e) deps() []depRef { return []depRef{} }

type c3m0l struct {
	*base
	definition.LazyInitComponent
}

func (x *c3m0l) deps() []depRef { return []depRef{} }

type c3m1e struct {
	*base
	D0 node `wire:"c0"`
}

func (x *c3m1e) deps() []depRef { return []depRef{{0, x.D0}} }

type c3m1l struct {
	*base
	definition.LazyInitComponent
	D0 node `wire:"c0"`
}

func (x *c3m1l) deps() []depRef { return []depRef{{0, x.D0}} }

type c3m2e struct {
	*base
	D1 node `wire:"c1"`
}

func (x *c3m2e) deps() []depRef { return []depRef{{1, x.D1}} }

type c3m2l struct {
	*base
	definition.LazyInitComponent
	D1 node `wire:"c1"`
}

func (x *c3m2l) deps() []depRef { return []depRef{{1, x.D1}} }

type c3m3e struct {
	*base
	D0 node `wire:"c0"`
	D1 node `wire:"c1"`
}

func (x *c3m3e) deps() []depRef { return []depRef{{0, x.D0}, {1, x.D1}} }

type c3m3l struct {
	*base
	definition.LazyInitComponent
	D0 node `wire:"c0"`
	D1 node `wire:"c1"`
}

func (x *c3m3l) deps() []depRef { return []depRef{{0, x.D0}, {1, x.D1}} }

type c3m4e struct {
	*base
	D2 node `wire:"c2"`
}

func (x *c3m4e) deps() []depRef { return []depRef{{2, x.D2}} }

type c3m4l struct {
	*base
	definition.LazyInitComponent
	D2 node `wire:"c2"`
}

func (x *c3m4l) deps() []depRef { return []depRef{{2, x.D2}} }

type c3m5e struct {
	*base
	D0 node `wire:"c0"`
	D2 node `wire:"c2"`
}

func (x *c3m5e) deps() []depRef { return []depRef{{0, x.D0}, {2, x.D2}} }

type c3m5l struct {
	*base
	definition.LazyInitComponent
	D0 node `wire:"c0"`
	D2 node `wire:"c2"`
}

func (x *c3m5l) deps() []depRef { return []depRef{{0, x.D0}, {2, x.D2}} }

type c3m6e struct {
	*base
	D1 node `wire:"c1"`
	D2 node `wire:"c2"`
}

func (x *c3m6e) deps() []depRef { return []depRef{{1, x.D1}, {2, x.D2}} }

type c3m6l struct {
	*base
	definition.LazyInitComponent
	D1 node `wire:"c1"`
	D2 node `wire:"c2"`
}

func (x *c3m6l) deps() []depRef { return []depRef{{1, x.D1}, {2, x.D2}} }

type c3m7e struct {
	*base
	D0 node `wire:"c0"`
	D1 node `wire:"c1"`
	D2 node `wire:"c2"`
}

func (x *c3m7e) deps() []depRef { return []depRef{{0, x.D0}, {1, x.D1}, {2, x.D2}} }

type c3m7l struct {
	*base
	definition.LazyInitComponent
	D0 node `wire:"c0"`
	D1 node `wire:"c1"`
	D2 node `wire:"c2"`
}

func (x *c3m7l) deps() []depRef { return []depRef{{0, x.D0}, {1, x.D1}, {2, x.D2}} }

func newComp(slot, mask int, lazy bool, b *base) any {
	switch {
	case slot == 0 && mask == 0 && !lazy:
		return &c0m0e{base: b}
	case slot == 0 && mask == 0 && lazy:
		return &c0m0l{base: b}
	case slot == 0 && mask == 1 && !lazy:
		return &c0m1e{base: b}
	case slot == 0 && mask == 1 && lazy:
		return &c0m1l{base: b}
	case slot == 0 && mask == 2 && !lazy:
		return &c0m2e{base: b}
	case slot == 0 && mask == 2 && lazy:
		return &c0m2l{base: b}
	case slot == 0 && mask == 3 && !lazy:
		return &c0m3e{base: b}
	case slot == 0 && mask == 3 && lazy:
		return &c0m3l{base: b}
	case slot == 0 && mask == 4 && !lazy:
		return &c0m4e{base: b}
	case slot == 0 && mask == 4 && lazy:
		return &c0m4l{base: b}
	case slot == 0 && mask == 5 && !lazy:
		return &c0m5e{base: b}
	case slot == 0 && mask == 5 && lazy:
		return &c0m5l{base: b}
	case slot == 0 && mask == 6 && !lazy:
		return &c0m6e{base: b}
	case slot == 0 && mask == 6 && lazy:
		return &c0m6l{base: b}
	case slot == 0 && mask == 7 && !lazy:
		return &c0m7e{base: b}
	case slot == 0 && mask == 7 && lazy:
		return &c0m7l{base: b}
	case slot == 1 && mask == 0 && !lazy:
		return &c1m0e{base: b}
	case slot == 1 && mask == 0 && lazy:
		return &c1m0l{base: b}
	case slot == 1 && mask == 1 && !lazy:
		return &c1m1e{base: b}
	case slot == 1 && mask == 1 && lazy:
		return &c1m1l{base: b}
	case slot == 1 && mask == 2 && !lazy:
		return &c1m2e{base: b}
	case slot == 1 && mask == 2 && lazy:
		return &c1m2l{base: b}
	case slot == 1 && mask == 3 && !lazy:
		return &c1m3e{base: b}
	case slot == 1 && mask == 3 && lazy:
		return &c1m3l{base: b}
	case slot == 1 && mask == 4 && !lazy:
		return &c1m4e{base: b}
	case slot == 1 && mask == 4 && lazy:
		return &c1m4l{base: b}
	case slot == 1 && mask == 5 && !lazy:
		return &c1m5e{base: b}
	case slot == 1 && mask == 5 && lazy:
		return &c1m5l{base: b}
	case slot == 1 && mask == 6 && !lazy:
		return &c1m6e{base: b}
	case slot == 1 && mask == 6 && lazy:
		return &c1m6l{base: b}
	case slot == 1 && mask == 7 && !lazy:
		return &c1m7e{base: b}
	case slot == 1 && mask == 7 && lazy:
		return &c1m7l{base: b}
	case slot == 2 && mask == 0 && !lazy:
		return &c2m0e{base: b}
	case slot == 2 && mask == 0 && lazy:
		return &c2m0l{base: b}
	case slot == 2 && mask == 1 && !lazy:
		return &c2m1e{base: b}
	case slot == 2 && mask == 1 && lazy:
		return &c2m1l{base: b}
	case slot == 2 && mask == 2 && !lazy:
		return &c2m2e{base: b}
	case slot == 2 && mask == 2 && lazy:
		return &c2m2l{base: b}
	case slot == 2 && mask == 3 && !lazy:
		return &c2m3e{base: b}
	case slot == 2 && mask == 3 && lazy:
		return &c2m3l{base: b}
	case slot == 2 && mask == 4 && !lazy:
		return &c2m4e{base: b}
	case slot == 2 && mask == 4 && lazy:
		return &c2m4l{base: b}
	case slot == 2 && mask == 5 && !lazy:
		return &c2m5e{base: b}
	case slot == 2 && mask == 5 && lazy:
		return &c2m5l{base: b}
	case slot == 2 && mask == 6 && !lazy:
		return &c2m6e{base: b}
	case slot == 2 && mask == 6 && lazy:
		return &c2m6l{base: b}
	case slot == 2 && mask == 7 && !lazy:
		return &c2m7e{base: b}
	case slot == 2 && mask == 7 && lazy:
		return &c2m7l{base: b}
	case slot == 3 && mask == 0 && !lazy:
		return &c3m0e{base: b}
	case slot == 3 && mask == 0 && lazy:
		return &c3m0l{base: b}
	case slot == 3 && mask == 1 && !lazy:
		return &c3m1e{base: b}
	case slot == 3 && mask == 1 && lazy:
		return &c3m1l{base: b}
	case slot == 3 && mask == 2 && !lazy:
		return &c3m2e{base: b}
	case slot == 3 && mask == 2 && lazy:
		return &c3m2l{base: b}
	case slot == 3 && mask == 3 && !lazy:
		return &c3m3e{base: b}
	case slot == 3 && mask == 3 && lazy:
		return &c3m3l{base: b}
	case slot == 3 && mask == 4 && !lazy:
		return &c3m4e{base: b}
	case slot == 3 && mask == 4 && lazy:
		return &c3m4l{base: b}
	case slot == 3 && mask == 5 && !lazy:
		return &c3m5e{base: b}
	case slot == 3 && mask == 5 && lazy:
		return &c3m5l{base: b}
	case slot == 3 && mask == 6 && !lazy:
		return &c3m6e{base: b}
	case slot == 3 && mask == 6 && lazy:
		return &c3m6l{base: b}
	case slot == 3 && mask == 7 && !lazy:
		return &c3m7e{base: b}
	case slot == 3 && mask == 7 && lazy:
		return &c3m7l{base: b}
	}
	panic("no such component type")
}
