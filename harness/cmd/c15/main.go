// Driver for C15: runs the real App with generated loader sets / option sequences and reports
// App.Get(path) for every requested path plus the value a prefix-bound map field received.
//
// stdin : {"cases":[{id, osargs:[...], ops:[{op, file, loaders:[{kind,text,file,args}]}], paths:[...], prefix, child}]}
// stdout: @@JSON {"outs":[{id, out:"ok|err|panic", gets:[tree|null...], bound:tree|null, detail}]}
//
// A case with child=true is executed in a child process started with the case's REAL command line
// (os.Args as the operating system delivers them); the others set os.Args before app.NewApp().
//
// Loader kind "user" is a loader type written here (not one of the library's): class P / O / U decides whether it
// implements Order()+Priority(), Order() only, or neither; it records its id when LoadConfig is called (read order).
//
// A case with a "steps" list is a HISTORY on ONE Configure: start = new (configure.NewConfigure + viper binder) |
// default (configure.Default() under the case's os.Args) | appdefault (the Configure of app.NewApp()); steps
// set / add / setconfig / init / get are applied to it directly, except for the trailing steps marked app=true, which
// become options of one App.Run (app.SetConfigure(cfg) first, unless the Configure is the App's own): the Initialize
// of that segment is the one App.Run performs.
// stdout for a history: {id, steps:[{out, log, gets}...], bound, detail}.
//
// A case with a "rounds" list RE-USES option values: the "pool" entries (set / add / setconfig with their loaders)
// are built ONCE - one []configure.Loader slice and one app.SettingOption value each - and every round applies some
// of them to a target: newapp (app.NewApp().Run(opts...)), sameapp (the previous App is started again with the
// options), appcfg (a new App on the previous Configure: app.SetConfigure(cfg) first), newcfg / samecfg (a
// configure.Default() of its own / the previous Configure, driven directly: SetLoaders(ls...) / AddLoaders(ls...)
// with the pool's slices, then Initialize).  stdout: {id, rounds:[{out, log, gets}...]}.
package main

import (
	"bytes"
	"context"
	"encoding/json"
	"fmt"
	"math"
	"os"
	"os/exec"
	"reflect"
	"sort"
	"strconv"
	"strings"
	"time"

	"github.com/go-kid/ioc/app"
	"github.com/go-kid/ioc/configure"
	"github.com/go-kid/ioc/configure/binder"
	"github.com/go-kid/ioc/configure/loader"
	"github.com/go-kid/ioc/definition"

	"verifharness/hx"
)

type LoaderSpec struct {
	Kind string   `json:"kind"` // raw | file | args | user
	Text string   `json:"text"`
	File string   `json:"file"`
	Args []string `json:"args"`
	Cls  string   `json:"cls"` // user: P | O | U
	Ord  int      `json:"ord"`
	Lid  int      `json:"lid"`
}

type StepSpec struct {
	Op      string       `json:"op"` // set | add | setconfig | init | get
	File    string       `json:"file"`
	Loaders []LoaderSpec `json:"loaders"`
	App     bool         `json:"app"`
}

type StepOut struct {
	Out  string `json:"out,omitempty"`
	Log  []int  `json:"log"`
	Gets []any  `json:"gets,omitempty"`
}

type OpSpec struct {
	Op      string       `json:"op"` // setconfig | setloaders | addloaders
	File    string       `json:"file"`
	Loaders []LoaderSpec `json:"loaders"`
}

type PoolSpec struct {
	Op      string       `json:"op"` // set | add | setconfig
	File    string       `json:"file"`
	Loaders []LoaderSpec `json:"loaders"`
	Spare   bool         `json:"spare"` // the loader slice has spare capacity (built with append) instead of len == cap
}

type RoundSpec struct {
	Target string `json:"target"` // newapp | sameapp | appcfg | newcfg | samecfg
	Uses   []int  `json:"uses"`   // indices into the pool, in the order the options are passed
}

type Case struct {
	Pool   []PoolSpec  `json:"pool"`
	Rounds []RoundSpec `json:"rounds"`
	ID     int        `json:"id"`
	OsArgs []string   `json:"osargs"`
	Ops    []OpSpec   `json:"ops"`
	Paths  []string   `json:"paths"`
	Prefix string     `json:"prefix"`
	Child  bool       `json:"child"`
	Global int        `json:"global"` // child cases: the last Global options are process-wide ones (app.Settings)
	Start  string     `json:"start"`
	Steps  []StepSpec `json:"steps"`
}

type Out struct {
	ID     int       `json:"id"`
	Out    string    `json:"out"`
	Gets   []any     `json:"gets"`
	Bound  any       `json:"bound"`
	Detail string    `json:"detail"`
	Log    []int     `json:"log"`
	Steps  []StepOut `json:"steps,omitempty"`
	Rounds []StepOut `json:"rounds,omitempty"`
}

// ---- loaders written by "the user" ------------------------------------------------------------

var userLog []int

type uBase struct {
	lid  int
	text string
}

func (u *uBase) LoadConfig() ([]byte, error) {
	userLog = append(userLog, u.lid)
	if u.text == "" {
		return nil, nil
	}
	return []byte(u.text), nil
}

type uOrd struct{ ord int }

func (o *uOrd) Order() int { return o.ord }

type uPrio struct{}

func (*uPrio) Priority() {}

type uP struct {
	uBase
	uOrd
	uPrio
}
type uO struct {
	uBase
	uOrd
}
type uU struct{ uBase }

func takeLog() []int {
	l := append([]int{}, userLog...)
	userLog = nil
	return l
}

type Input struct {
	Cases []Case `json:"cases"`
}

// canon renders a configuration value as the tree the Coq side reads:
// {"m":[[k,tree]...]} (keys sorted) | {"l":[tree...]} | {"i":"5"} | {"f":"1.5"} | {"s":"x"} | {"b":true} | {"n":1}
func canon(v any) any {
	if v == nil {
		return map[string]any{"n": 1}
	}
	switch t := v.(type) {
	case bool:
		return map[string]any{"b": t}
	case string:
		return map[string]any{"s": t}
	case map[string]any:
		keys := make([]string, 0, len(t))
		for k := range t {
			keys = append(keys, k)
		}
		sort.Strings(keys)
		kids := make([]any, 0, len(keys))
		for _, k := range keys {
			kids = append(kids, []any{k, canon(t[k])})
		}
		return map[string]any{"m": kids}
	case map[any]any:
		m := map[string]any{}
		for k, x := range t {
			m[fmt.Sprint(k)] = x
		}
		return canon(m)
	case []any:
		items := make([]any, 0, len(t))
		for _, x := range t {
			items = append(items, canon(x))
		}
		return map[string]any{"l": items}
	}
	rv := reflect.ValueOf(v)
	switch rv.Kind() {
	case reflect.Int, reflect.Int8, reflect.Int16, reflect.Int32, reflect.Int64:
		return map[string]any{"i": strconv.FormatInt(rv.Int(), 10)}
	case reflect.Uint, reflect.Uint8, reflect.Uint16, reflect.Uint32, reflect.Uint64:
		return map[string]any{"i": strconv.FormatUint(rv.Uint(), 10)}
	case reflect.Float32, reflect.Float64:
		f := rv.Float()
		if f == math.Trunc(f) && math.Abs(f) < 1e15 {
			// a YAML "2.0" and an integer 2 are the same configuration number
			return map[string]any{"i": strconv.FormatInt(int64(f), 10)}
		}
		return map[string]any{"f": strconv.FormatFloat(f, 'g', -1, 64)}
	case reflect.Map:
		m := map[string]any{}
		it := rv.MapRange()
		for it.Next() {
			m[fmt.Sprint(it.Key().Interface())] = it.Value().Interface()
		}
		return canon(m)
	case reflect.Slice, reflect.Array:
		items := make([]any, 0, rv.Len())
		for i := 0; i < rv.Len(); i++ {
			items = append(items, canon(rv.Index(i).Interface()))
		}
		return map[string]any{"l": items}
	}
	return map[string]any{"s": fmt.Sprintf("?%T:%v", v, v)}
}

func mkLoader(s LoaderSpec) configure.Loader {
	switch s.Kind {
	case "raw":
		return loader.NewRawLoader([]byte(s.Text))
	case "file":
		return loader.NewFileLoader(s.File)
	case "args":
		return loader.NewArgsLoader(s.Args)
	case "user":
		b := uBase{lid: s.Lid, text: s.Text}
		switch s.Cls {
		case "P":
			return &uP{uBase: b, uOrd: uOrd{s.Ord}}
		case "O":
			return &uO{uBase: b, uOrd: uOrd{s.Ord}}
		case "U":
			return &uU{uBase: b}
		}
	}
	panic("bad loader kind " + s.Kind + s.Cls)
}

func mkLoaders(ss []LoaderSpec) []configure.Loader {
	var ls []configure.Loader
	for _, s := range ss {
		ls = append(ls, mkLoader(s))
	}
	return ls
}

func runCase(c Case, setArgs bool) (out Out) {
	out = Out{ID: c.ID}
	if setArgs {
		os.Args = append([]string{os.Args[0]}, c.OsArgs...)
	}
	var a *app.App
	var holder reflect.Value
	var runErr error
	userLog = nil
	defer func() { out.Log = takeLog() }()
	p := hx.Guard(func() {
		a = app.NewApp() // configure.Default(): SetLoaders(ArgsLoader(os.Args)); defer flag.Parse()
		var ops []app.SettingOption
		for _, o := range c.Ops {
			switch o.Op {
			case "setconfig":
				ops = append(ops, app.SetConfig(o.File))
			case "setloaders":
				ops = append(ops, app.SetConfigLoader(mkLoaders(o.Loaders)...))
			case "addloaders":
				ops = append(ops, app.AddConfigLoader(mkLoaders(o.Loaders)...))
			default:
				panic("bad op " + o.Op)
			}
		}
		if c.Prefix != "" {
			t := reflect.StructOf([]reflect.StructField{{
				Name: "M",
				Type: reflect.TypeOf(map[string]any{}),
				Tag:  reflect.StructTag(fmt.Sprintf(`prefix:"%s"`, c.Prefix)),
			}})
			holder = reflect.New(t)
			ops = append(ops, app.SetComponents(holder.Interface()))
		}
		if g := c.Global; g > 0 && !setArgs {
			// only in a process of its own: process-wide options cannot be taken back
			if c.Prefix != "" {
				g++
			}
			if g > len(ops) {
				g = len(ops)
			}
			app.Settings(ops[len(ops)-g:]...)
			ops = ops[:len(ops)-g]
		}
		runErr = a.Run(ops...)
	})
	switch {
	case p != "":
		out.Out = "panic"
		out.Detail = p
		return out
	case runErr != nil:
		out.Out = "err"
		out.Detail = runErr.Error()
		if len(out.Detail) > 300 {
			out.Detail = out.Detail[:300]
		}
		return out
	}
	out.Out = "ok"
	p = hx.Guard(func() {
		for _, path := range c.Paths {
			v := a.Get(path)
			if v == nil {
				out.Gets = append(out.Gets, nil)
			} else {
				out.Gets = append(out.Gets, canon(v))
			}
		}
		if c.Prefix != "" {
			m := holder.Elem().Field(0).Interface().(map[string]any)
			if m == nil {
				out.Bound = nil
			} else {
				out.Bound = canon(m)
			}
		}
	})
	if p != "" {
		out.Out = "panic"
		out.Detail = "observe: " + p
	}
	return out
}

func short(s string) string {
	if len(s) > 300 {
		return s[:300]
	}
	return s
}

func holderFor(prefix string) reflect.Value {
	t := reflect.StructOf([]reflect.StructField{{
		Name: "M",
		Type: reflect.TypeOf(map[string]any{}),
		Tag:  reflect.StructTag(fmt.Sprintf(`prefix:"%s"`, prefix)),
	}})
	return reflect.New(t)
}

// runHistory drives ONE Configure through the case's steps.
func runHistory(c Case) (out Out) {
	out = Out{ID: c.ID, Out: "ok"}
	os.Args = append([]string{os.Args[0]}, c.OsArgs...)
	userLog = nil
	var cfg configure.Configure
	var a *app.App
	var holder reflect.Value
	if p := hx.Guard(func() {
		switch c.Start {
		case "new":
			cfg = configure.NewConfigure()
			cfg.SetBinder(binder.NewViperBinder("yaml"))
		case "default":
			cfg = configure.Default()
		case "appdefault":
			a = app.NewApp()
			cfg = a.Configure
		default:
			panic("bad start " + c.Start)
		}
	}); p != "" {
		out.Out = "panic"
		out.Detail = "start: " + p
		return out
	}
	get := func() StepOut {
		so := StepOut{}
		if p := hx.Guard(func() {
			for _, path := range c.Paths {
				v := cfg.Get(path)
				if v == nil {
					so.Gets = append(so.Gets, nil)
				} else {
					so.Gets = append(so.Gets, canon(v))
				}
			}
		}); p != "" {
			so.Out = "panic"
			out.Detail = "get: " + short(p)
		}
		return so
	}
	var appOps []app.SettingOption
	for _, st := range c.Steps {
		so := StepOut{}
		switch st.Op {
		case "set", "add", "setconfig":
			if st.App {
				switch st.Op {
				case "set":
					appOps = append(appOps, app.SetConfigLoader(mkLoaders(st.Loaders)...))
				case "add":
					appOps = append(appOps, app.AddConfigLoader(mkLoaders(st.Loaders)...))
				default:
					appOps = append(appOps, app.SetConfig(st.File))
				}
			} else if p := hx.Guard(func() {
				switch st.Op {
				case "set":
					cfg.SetLoaders(mkLoaders(st.Loaders)...)
				case "add":
					cfg.AddLoaders(mkLoaders(st.Loaders)...)
				default:
					cfg.AddLoaders(loader.NewFileLoader(st.File))
				}
			}); p != "" {
				so.Out = "panic"
				out.Detail = st.Op + ": " + short(p)
			}
		case "init":
			userLog = nil
			var err error
			p := hx.Guard(func() {
				if st.App {
					ops := []app.SettingOption{}
					if a == nil {
						a = app.NewApp()
						ops = append(ops, app.SetConfigure(cfg))
					}
					ops = append(ops, appOps...)
					appOps = nil
					if c.Prefix != "" {
						holder = holderFor(c.Prefix)
						ops = append(ops, app.SetComponents(holder.Interface()))
					}
					err = a.Run(ops...)
				} else {
					err = cfg.Initialize()
				}
			})
			switch {
			case p != "":
				so.Out = "panic"
				out.Detail = "init: " + short(p)
			case err != nil:
				so.Out = "err"
				out.Detail = "init: " + short(err.Error())
			default:
				so.Out = "ok"
			}
			so.Log = takeLog()
		case "get":
			so = get()
		default:
			panic("bad step " + st.Op)
		}
		out.Steps = append(out.Steps, so)
	}
	if holder.IsValid() {
		if p := hx.Guard(func() {
			m := holder.Elem().Field(0).Interface().(map[string]any)
			if m != nil {
				out.Bound = canon(m)
			}
		}); p != "" {
			out.Detail = "bound: " + short(p)
		}
	}
	return out
}

// runReuse builds every pool entry once and applies the same values round after round.
func runReuse(c Case) (out Out) {
	out = Out{ID: c.ID, Out: "ok"}
	os.Args = append([]string{os.Args[0]}, c.OsArgs...)
	userLog = nil
	type built struct {
		op   string
		file string
		ls   []configure.Loader
		opt  app.SettingOption
	}
	pool := make([]built, len(c.Pool))
	if p := hx.Guard(func() {
		for i, ps := range c.Pool {
			b := built{op: ps.Op, file: ps.File}
			src := mkLoaders(ps.Loaders)
			if ps.Spare {
				b.ls = append(make([]configure.Loader, 0, len(src)+3), src...)
			} else {
				b.ls = make([]configure.Loader, len(src))
				copy(b.ls, src)
			}
			switch ps.Op {
			case "set":
				b.opt = app.SetConfigLoader(b.ls...)
			case "add":
				b.opt = app.AddConfigLoader(b.ls...)
			case "setconfig":
				b.opt = app.SetConfig(ps.File)
			default:
				panic("bad pool op " + ps.Op)
			}
			pool[i] = b
		}
	}); p != "" {
		out.Out = "panic"
		out.Detail = "pool: " + short(p)
		return out
	}
	var a *app.App
	var cfg configure.Configure
	for _, r := range c.Rounds {
		so := StepOut{}
		userLog = nil
		var err error
		p := hx.Guard(func() {
			opts := func(first ...app.SettingOption) []app.SettingOption {
				ops := append([]app.SettingOption{}, first...)
				for _, i := range r.Uses {
					ops = append(ops, pool[i].opt)
				}
				return ops
			}
			direct := func() {
				for _, i := range r.Uses {
					switch b := pool[i]; b.op {
					case "set":
						cfg.SetLoaders(b.ls...)
					case "add":
						cfg.AddLoaders(b.ls...)
					default:
						cfg.AddLoaders(loader.NewFileLoader(b.file))
					}
				}
			}
			switch r.Target {
			case "newapp":
				a = app.NewApp()
				cfg = a.Configure
				err = a.Run(opts()...)
			case "sameapp":
				err = a.Run(opts()...)
			case "appcfg":
				a = app.NewApp()
				err = a.Run(opts(app.SetConfigure(cfg))...)
			case "newcfg":
				a = nil
				cfg = configure.Default()
				direct()
				err = cfg.Initialize()
			case "samecfg":
				direct()
				err = cfg.Initialize()
			default:
				panic("bad round target " + r.Target)
			}
		})
		switch {
		case p != "":
			so.Out = "panic"
			out.Detail = r.Target + ": " + short(p)
		case err != nil:
			so.Out = "err"
			out.Detail = r.Target + ": " + short(err.Error())
		default:
			so.Out = "ok"
		}
		so.Log = takeLog()
		if cfg != nil {
			if p := hx.Guard(func() {
				for _, path := range c.Paths {
					v := cfg.Get(path)
					if v == nil {
						so.Gets = append(so.Gets, nil)
					} else {
						so.Gets = append(so.Gets, canon(v))
					}
				}
			}); p != "" {
				so.Gets = nil
				out.Detail = "get: " + short(p)
			}
		}
		out.Rounds = append(out.Rounds, so)
	}
	return out
}

func runChild(c Case) Out {
	ctx, cancel := context.WithTimeout(context.Background(), 30*time.Second)
	defer cancel()
	cmd := exec.CommandContext(ctx, os.Args[0], c.OsArgs...)
	cmd.Env = append(os.Environ(), "VERIF_C15_CHILD=1")
	cmd.Env = append(cmd.Env, lookAlikes(c.Paths)...)
	data, _ := json.Marshal(c)
	cmd.Stdin = bytes.NewReader(data)
	raw, err := cmd.CombinedOutput()
	for _, ln := range strings.Split(string(raw), "\n") {
		if strings.HasPrefix(ln, "@@JSON ") {
			var o Out
			if json.Unmarshal([]byte(ln[7:]), &o) == nil {
				return o
			}
		}
	}
	detail := string(raw)
	if len(detail) > 300 {
		detail = detail[len(detail)-300:]
	}
	return Out{ID: c.ID, Out: "panic", Detail: fmt.Sprintf("child died: %v %s", err, detail)}
}

// lookAlikes: environment variables named like the configuration paths (DB_HOST for db.host, DB for the section).
// Configuration comes from the loaders; the environment of the process is none of them.
func lookAlikes(paths []string) []string {
	var env []string
	for _, p := range paths {
		if p == "" {
			continue
		}
		up := strings.ToUpper(strings.NewReplacer(".", "_", "-", "_").Replace(p))
		env = append(env, up+"=env-intruder")
		if i := strings.Index(p, "."); i > 0 {
			env = append(env, strings.ToUpper(p[:i])+"=env-section-intruder")
		}
	}
	return env
}

func main() {
	hx.Quiet()
	if os.Getenv("VERIF_C15_CHILD") == "1" {
		var c Case
		hx.ReadInput(&c)
		hx.WriteOutput(runCase(c, false)) // os.Args are the real ones
		return
	}
	var in Input
	hx.ReadInput(&in)
	self := os.Args[0]
	for _, c := range in.Cases {
		for _, kv := range lookAlikes(c.Paths) {
			if i := strings.Index(kv, "="); i > 0 && !strings.HasPrefix(kv, "VERIF") && !strings.HasPrefix(kv, "GO") &&
				os.Getenv(kv[:i]) == "" {
				os.Setenv(kv[:i], kv[i+1:])
			}
		}
	}
	outs := make([]Out, 0, len(in.Cases))
	for _, c := range in.Cases {
		os.Args = []string{self}
		if len(c.Rounds) > 0 {
			outs = append(outs, runReuse(c))
		} else if len(c.Steps) > 0 {
			outs = append(outs, runHistory(c))
		} else if c.Child {
			outs = append(outs, runChild(c))
		} else {
			outs = append(outs, runCase(c, true))
		}
	}
	hx.WriteOutput(map[string]any{"outs": outs, "facts": loaderFacts()})
}

// loaderFacts reads the ordering class of the three loader kinds back from the real types
// (the model's lclass: FileLoader = Priority with Order 0, Raw/Args loaders unordered).
func loaderFacts() map[string]any {
	class := func(l any) string {
		o, ordered := l.(definition.Ordered)
		if !ordered {
			return "unordered"
		}
		if _, prio := l.(definition.Priority); prio {
			return fmt.Sprintf("priority:%d", o.Order())
		}
		return fmt.Sprintf("ordered:%d", o.Order())
	}
	return map[string]any{
		"file":  class(loader.NewFileLoader("/some/dir/application.yaml")),
		"file2": class(loader.NewFileLoader("b.yaml")),
		"raw":   class(loader.NewRawLoader([]byte("a: 1"))),
		"args":  class(loader.NewArgsLoader([]string{"--app.config=a=1"})),
		"userP": class(&uP{uOrd: uOrd{5}}),
		"userO": class(&uO{uOrd: uOrd{-3}}),
		"userU": class(&uU{}),
	}
}
