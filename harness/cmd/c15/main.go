// Driver for C15: runs the real App with generated loader sets / option sequences and reports
// App.Get(path) for every requested path plus the value a prefix-bound map field received.
//
// stdin : {"cases":[{id, osargs:[...], ops:[{op, file, loaders:[{kind,text,file,args}]}], paths:[...], prefix, child}]}
// stdout: @@JSON {"outs":[{id, out:"ok|err|panic", gets:[tree|null...], bound:tree|null, detail}]}
//
// A case with child=true is executed in a child process started with the case's REAL command line
// (os.Args as the operating system delivers them); the others set os.Args before app.NewApp().
package main

import (
	"bytes"
	"context"
	"encoding/json"
	"fmt"
	"math"
	"os"
	"os/exec"
	"reflect"
	"sort"
	"strconv"
	"strings"
	"time"

	"github.com/go-kid/ioc/app"
	"github.com/go-kid/ioc/configure"
	"github.com/go-kid/ioc/configure/loader"
	"github.com/go-kid/ioc/definition"

	"verifharness/hx"
)

type LoaderSpec struct {
	Kind string   `json:"kind"` // raw | file | args
	Text string   `json:"text"`
	File string   `json:"file"`
	Args []string `json:"args"`
}

type OpSpec struct {
	Op      string       `json:"op"` // setconfig | setloaders | addloaders
	File    string       `json:"file"`
	Loaders []LoaderSpec `json:"loaders"`
}

type Case struct {
	ID     int      `json:"id"`
	OsArgs []string `json:"osargs"`
	Ops    []OpSpec `json:"ops"`
	Paths  []string `json:"paths"`
	Prefix string   `json:"prefix"`
	Child  bool     `json:"child"`
}

type Out struct {
	ID     int    `json:"id"`
	Out    string `json:"out"`
	Gets   []any  `json:"gets"`
	Bound  any    `json:"bound"`
	Detail string `json:"detail"`
}

type Input struct {
	Cases []Case `json:"cases"`
}

// canon renders a configuration value as the tree the Coq side reads:
// {"m":[[k,tree]...]} (keys sorted) | {"l":[tree...]} | {"i":"5"} | {"f":"1.5"} | {"s":"x"} | {"b":true} | {"n":1}
func canon(v any) any {
	if v == nil {
		return map[string]any{"n": 1}
	}
	switch t := v.(type) {
	case bool:
		return map[string]any{"b": t}
	case string:
		return map[string]any{"s": t}
	case map[string]any:
		keys := make([]string, 0, len(t))
		for k := range t {
			keys = append(keys, k)
		}
		sort.Strings(keys)
		kids := make([]any, 0, len(keys))
		for _, k := range keys {
			kids = append(kids, []any{k, canon(t[k])})
		}
		return map[string]any{"m": kids}
	case map[any]any:
		m := map[string]any{}
		for k, x := range t {
			m[fmt.Sprint(k)] = x
		}
		return canon(m)
	case []any:
		items := make([]any, 0, len(t))
		for _, x := range t {
			items = append(items, canon(x))
		}
		return map[string]any{"l": items}
	}
	rv := reflect.ValueOf(v)
	switch rv.Kind() {
	case reflect.Int, reflect.Int8, reflect.Int16, reflect.Int32, reflect.Int64:
		return map[string]any{"i": strconv.FormatInt(rv.Int(), 10)}
	case reflect.Uint, reflect.Uint8, reflect.Uint16, reflect.Uint32, reflect.Uint64:
		return map[string]any{"i": strconv.FormatUint(rv.Uint(), 10)}
	case reflect.Float32, reflect.Float64:
		f := rv.Float()
		if f == math.Trunc(f) && math.Abs(f) < 1e15 {
			// a YAML "2.0" and an integer 2 are the same configuration number
			return map[string]any{"i": strconv.FormatInt(int64(f), 10)}
		}
		return map[string]any{"f": strconv.FormatFloat(f, 'g', -1, 64)}
	case reflect.Map:
		m := map[string]any{}
		it := rv.MapRange()
		for it.Next() {
			m[fmt.Sprint(it.Key().Interface())] = it.Value().Interface()
		}
		return canon(m)
	case reflect.Slice, reflect.Array:
		items := make([]any, 0, rv.Len())
		for i := 0; i < rv.Len(); i++ {
			items = append(items, canon(rv.Index(i).Interface()))
		}
		return map[string]any{"l": items}
	}
	return map[string]any{"s": fmt.Sprintf("?%T:%v", v, v)}
}

func mkLoader(s LoaderSpec) configure.Loader {
	switch s.Kind {
	case "raw":
		return loader.NewRawLoader([]byte(s.Text))
	case "file":
		return loader.NewFileLoader(s.File)
	case "args":
		return loader.NewArgsLoader(s.Args)
	}
	panic("bad loader kind " + s.Kind)
}

func mkLoaders(ss []LoaderSpec) []configure.Loader {
	var ls []configure.Loader
	for _, s := range ss {
		ls = append(ls, mkLoader(s))
	}
	return ls
}

func runCase(c Case, setArgs bool) Out {
	out := Out{ID: c.ID}
	if setArgs {
		os.Args = append([]string{os.Args[0]}, c.OsArgs...)
	}
	var a *app.App
	var holder reflect.Value
	var runErr error
	p := hx.Guard(func() {
		a = app.NewApp() // configure.Default(): SetLoaders(ArgsLoader(os.Args)); defer flag.Parse()
		var ops []app.SettingOption
		for _, o := range c.Ops {
			switch o.Op {
			case "setconfig":
				ops = append(ops, app.SetConfig(o.File))
			case "setloaders":
				ops = append(ops, app.SetConfigLoader(mkLoaders(o.Loaders)...))
			case "addloaders":
				ops = append(ops, app.AddConfigLoader(mkLoaders(o.Loaders)...))
			default:
				panic("bad op " + o.Op)
			}
		}
		if c.Prefix != "" {
			t := reflect.StructOf([]reflect.StructField{{
				Name: "M",
				Type: reflect.TypeOf(map[string]any{}),
				Tag:  reflect.StructTag(fmt.Sprintf(`prefix:"%s"`, c.Prefix)),
			}})
			holder = reflect.New(t)
			ops = append(ops, app.SetComponents(holder.Interface()))
		}
		runErr = a.Run(ops...)
	})
	switch {
	case p != "":
		out.Out = "panic"
		out.Detail = p
		return out
	case runErr != nil:
		out.Out = "err"
		out.Detail = runErr.Error()
		if len(out.Detail) > 300 {
			out.Detail = out.Detail[:300]
		}
		return out
	}
	out.Out = "ok"
	p = hx.Guard(func() {
		for _, path := range c.Paths {
			v := a.Get(path)
			if v == nil {
				out.Gets = append(out.Gets, nil)
			} else {
				out.Gets = append(out.Gets, canon(v))
			}
		}
		if c.Prefix != "" {
			m := holder.Elem().Field(0).Interface().(map[string]any)
			if m == nil {
				out.Bound = nil
			} else {
				out.Bound = canon(m)
			}
		}
	})
	if p != "" {
		out.Out = "panic"
		out.Detail = "observe: " + p
	}
	return out
}

func runChild(c Case) Out {
	ctx, cancel := context.WithTimeout(context.Background(), 30*time.Second)
	defer cancel()
	cmd := exec.CommandContext(ctx, os.Args[0], c.OsArgs...)
	cmd.Env = append(os.Environ(), "VERIF_C15_CHILD=1")
	data, _ := json.Marshal(c)
	cmd.Stdin = bytes.NewReader(data)
	raw, err := cmd.CombinedOutput()
	for _, ln := range strings.Split(string(raw), "\n") {
		if strings.HasPrefix(ln, "@@JSON ") {
			var o Out
			if json.Unmarshal([]byte(ln[7:]), &o) == nil {
				return o
			}
		}
	}
	detail := string(raw)
	if len(detail) > 300 {
		detail = detail[len(detail)-300:]
	}
	return Out{ID: c.ID, Out: "panic", Detail: fmt.Sprintf("child died: %v %s", err, detail)}
}

func main() {
	hx.Quiet()
	if os.Getenv("VERIF_C15_CHILD") == "1" {
		var c Case
		hx.ReadInput(&c)
		hx.WriteOutput(runCase(c, false)) // os.Args are the real ones
		return
	}
	var in Input
	hx.ReadInput(&in)
	self := os.Args[0]
	outs := make([]Out, 0, len(in.Cases))
	for _, c := range in.Cases {
		os.Args = []string{self}
		if c.Child {
			outs = append(outs, runChild(c))
		} else {
			outs = append(outs, runCase(c, true))
		}
	}
	hx.WriteOutput(map[string]any{"outs": outs, "facts": loaderFacts()})
}

// loaderFacts reads the ordering class of the three loader kinds back from the real types
// (the model's lclass: FileLoader = Priority with Order 0, Raw/Args loaders unordered).
func loaderFacts() map[string]any {
	class := func(l any) string {
		o, ordered := l.(definition.Ordered)
		if !ordered {
			return "unordered"
		}
		if _, prio := l.(definition.Priority); prio {
			return fmt.Sprintf("priority:%d", o.Order())
		}
		return fmt.Sprintf("ordered:%d", o.Order())
	}
	return map[string]any{
		"file":  class(loader.NewFileLoader("/some/dir/application.yaml")),
		"file2": class(loader.NewFileLoader("b.yaml")),
		"raw":   class(loader.NewRawLoader([]byte("a: 1"))),
		"args":  class(loader.NewArgsLoader([]string{"--app.config=a=1"})),
	}
}
