// Driver for C11: registers generated struct shapes as components of a REAL App, snapshots every field of
// every shape (exported or not, at any depth, also inside structs the scan must not enter) before and after
// Run, and lets a recording user tag processor dump every property the container derived.
//
// stdin : {"cases":[{id, config, static, shape:[node...], flat:[node...]|null}]}
//
//	node = {n,e,k,tags,anon,ptr,pre,fs}   (k: int|string|bool|float|dep|depi|depis|logger|cfgplain|cfgp|map|struct)
//
// stdout: @@JSON {"outs":[{id,out,detail, main:{name,before,after,props}, flat:{...}|null}]}
//
// Shapes are built with reflect.StructOf; shapes reflect cannot build (embedded structs of UNEXPORTED type) come
// from a generated file of static types that registers constructors in staticShapes (see tools/props/c11.py,
// which builds this file together with the generated one under harness/work/).
package main

import (
	"bytes"
	"context"
	"encoding/json"
	"fmt"
	"io"
	"os"
	"os/exec"
	"reflect"
	"sort"
	"strings"
	"time"
	"unsafe"

	"github.com/go-kid/ioc/app"
	"github.com/go-kid/ioc/component_definition"
	"github.com/go-kid/ioc/configure/loader"
	"github.com/go-kid/ioc/container/processors"
	"github.com/go-kid/ioc/syslog"
	"github.com/go-kid/ioc/util/framework_helper"

	"verifharness/hx"
)

// ---- the fixed cast ---------------------------------------------------------------------------------

type DepI interface{ Mark() string }
type Dep struct{}

func (d *Dep) Mark() string { return "dep" }

// Ping is what a `func:"Ping"` tag selects (container.FuncName wants a method without results)
func (d *Dep) Ping() {}

type CfgPlain struct {
	Host string
	Port int
}

// CfgA implements definition.ConfigurationProperties: an untagged field of this type is bound from "c11.cfga"
type CfgA struct {
	Host string
	Port int
}

func (CfgA) Prefix() string { return "c11.cfga" }

// recorder: a user tag processor for tag "rec" that also records every property it is handed
type propRec struct {
	Comp   string     `json:"-"`
	Field  string     `json:"field"`
	Tag    string     `json:"tag"`
	TagStr string     `json:"tagstr"`
	PType  string     `json:"ptype"`
	Args   [][]string `json:"args"` // [name, v1, v2...] sorted by name
}

type recorder struct {
	processors.DefaultTagScanDefinitionRegistryPostProcessor
	processors.DefaultInstantiationAwareComponentPostProcessor
	recs []propRec
}

func (r *recorder) PostProcessAfterInstantiation(component any, componentName string) (bool, error) {
	return true, nil
}

func (r *recorder) PostProcessProperties(properties []*component_definition.Property, component any, componentName string) ([]*component_definition.Property, error) {
	for _, p := range properties {
		var args [][]string
		for k, vs := range p.Args() {
			args = append(args, append([]string{string(k)}, vs...))
		}
		sort.Slice(args, func(i, j int) bool { return args[i][0] < args[j][0] })
		r.recs = append(r.recs, propRec{Comp: componentName, Field: p.StructField.Name, Tag: p.Tag, TagStr: p.TagStr,
			PType: string(p.PropertyType), Args: args})
		if p.Tag == "rec" || p.Tag == "aux" {
			// a user processor acting on its own tag
			switch p.Type.Kind() {
			case reflect.String:
				p.Value.SetString("REC:" + p.TagStr)
			case reflect.Int:
				p.Value.SetInt(777)
			}
		}
	}
	return nil, nil
}

// a second user tag processor that only scans (tag "aux")
type auxScanner struct {
	processors.DefaultTagScanDefinitionRegistryPostProcessor
}

// ---- loggers ----------------------------------------------------------------------------------------

// prefLogger is the container logger of this driver, installed through syslog.SetLogger: it prints nothing and
// remembers the prefixes it was derived with, so that the logger a `logger` point received tells the prefix the
// container asked for (syslog.Pref(p) = root.Pref(p), cached per prefix).  Panic / Fatal do not panic, like the
// library's own logger under hx.Quiet() as far as outcomes go (Panic is below LvFatal there).  loud (the input's
// `verbose` flag): every message is really formatted (into io.Discard), as under a debug / trace log level.
type prefLogger struct {
	prefs []string
	loud  bool
}

func (l *prefLogger) Level(syslog.Lv) syslog.Logger { return l }
func (l *prefLogger) Pref(p any) syslog.Logger {
	return &prefLogger{prefs: append(append([]string(nil), l.prefs...), fmt.Sprint(p)), loud: l.loud}
}
func (l *prefLogger) ln(v ...any) {
	if l.loud {
		_, _ = fmt.Fprintln(io.Discard, v...)
	}
}
func (l *prefLogger) f(format string, v ...any) {
	if l.loud {
		_, _ = fmt.Fprintf(io.Discard, format, v...)
	}
}
func (l *prefLogger) Trace(v ...any)            { l.ln(v...) }
func (l *prefLogger) Tracef(f string, v ...any) { l.f(f, v...) }
func (l *prefLogger) Debug(v ...any)            { l.ln(v...) }
func (l *prefLogger) Debugf(f string, v ...any) { l.f(f, v...) }
func (l *prefLogger) Info(v ...any)             { l.ln(v...) }
func (l *prefLogger) Infof(f string, v ...any)  { l.f(f, v...) }
func (l *prefLogger) Warn(v ...any)             { l.ln(v...) }
func (l *prefLogger) Warnf(f string, v ...any)  { l.f(f, v...) }
func (l *prefLogger) Error(v ...any)            { l.ln(v...) }
func (l *prefLogger) Errorf(f string, v ...any) { l.f(f, v...) }
func (l *prefLogger) Panic(v ...any)            { l.ln(v...) }
func (l *prefLogger) Panicf(f string, v ...any) { l.f(f, v...) }
func (l *prefLogger) Fatal(v ...any)            { l.ln(v...) }
func (l *prefLogger) Fatalf(f string, v ...any) { l.f(f, v...) }

var loggerType = reflect.TypeOf((*syslog.Logger)(nil)).Elem()

// describeLogger renders the logger a field holds: the prefix it was made for, with the name of the component the
// field belongs to written as "@" (so that a shape and its flattened twin, two components, are comparable), and
// whether it is THE logger syslog.Pref hands out for that prefix (one shared logger per prefix).
func describeLogger(v reflect.Value, comp string) string {
	l, ok := v.Interface().(*prefLogger)
	if !ok {
		return "?foreign:" + v.Elem().Type().String()
	}
	if len(l.prefs) != 1 {
		return fmt.Sprintf("?derived%d:%s", len(l.prefs), strings.Join(l.prefs, "|"))
	}
	p := l.prefs[0]
	out := p
	if strings.HasPrefix(p, comp) {
		out = "@" + p[len(comp):]
	}
	if syslog.Pref(p) != syslog.Logger(l) {
		out += "!not-the-shared-logger-of-this-prefix"
	}
	return out
}

// dumpLoggers lists every non-nil field of type syslog.Logger below v with its path and describeLogger
func dumpLoggers(v reflect.Value, path string, comp string, out *[][]string) {
	for i := 0; i < v.NumField(); i++ {
		sf := v.Type().Field(i)
		f := open(v.Field(i))
		p := sf.Name
		if path != "" {
			p = path + "." + sf.Name
		}
		switch {
		case f.Kind() == reflect.Struct:
			dumpLoggers(f, p, comp, out)
		case f.Kind() == reflect.Ptr && f.Type() != depPtrType && f.Type().Elem().Kind() == reflect.Struct:
			if !f.IsNil() {
				dumpLoggers(f.Elem(), p, comp, out)
			}
		case f.Type() == loggerType && !f.IsNil():
			*out = append(*out, []string{p, describeLogger(f, comp)})
		}
	}
}

// ---- shapes -----------------------------------------------------------------------------------------

type Node struct {
	N    string `json:"n"`
	E    bool   `json:"e"`
	K    string `json:"k"`
	Tags string `json:"tags"`
	Anon bool   `json:"anon"`
	Ptr  bool   `json:"ptr"`
	Pre  bool   `json:"pre"`
	Fs   []Node `json:"fs"`
}

type Case struct {
	ID     int    `json:"id"`
	Config string `json:"config"`
	Static string `json:"static"` // key into staticShapes ("" = build with reflect.StructOf)
	Shape  []Node `json:"shape"`
	Flat   []Node `json:"flat"` // flattened twin (nil = none)
}

type Input struct {
	Cases []Case `json:"cases"`
}

type Snap struct {
	Name   string     `json:"name"`
	Before [][]string `json:"before"`
	After  [][]string `json:"after"`
	Props  []propRec  `json:"props"`
	Logs   [][]string `json:"logs"` // [path, prefix as describeLogger renders it] of every non-nil syslog.Logger field after Run
}

// a registered tag processor as found in the running App (facts read back from the real constructors)
type procFact struct {
	Tag      string `json:"tag"`
	Required bool   `json:"required"`
	Handler  bool   `json:"handler"` // ExtractHandler != nil
}

type Out struct {
	ID     int        `json:"id"`
	Out    string     `json:"out"`
	Detail string     `json:"detail"`
	Main   *Snap      `json:"main"`
	Flat   *Snap      `json:"flat"`
	Procs  []procFact `json:"procs"`
}

// procFacts lists every registered DefinitionRegistryPostProcessor that embeds
// DefaultTagScanDefinitionRegistryPostProcessor, with its Tag / Required / ExtractHandler
func procFacts(a *app.App) []procFact {
	var out []procFact
	for _, p := range a.Factory.GetDefinitionRegistryPostProcessors() {
		v := reflect.ValueOf(p)
		if v.Kind() != reflect.Ptr || v.Elem().Kind() != reflect.Struct {
			continue
		}
		f := v.Elem().FieldByName("DefaultTagScanDefinitionRegistryPostProcessor")
		if !f.IsValid() {
			continue
		}
		d := open(f).Interface().(processors.DefaultTagScanDefinitionRegistryPostProcessor)
		out = append(out, procFact{Tag: d.Tag, Required: d.Required, Handler: d.ExtractHandler != nil})
	}
	sort.Slice(out, func(i, j int) bool { return out[i].Tag < out[j].Tag })
	return out
}

// constructors of generated static types: key -> pointer to a zero value
var staticShapes = map[string]func() any{}

const pkgPath = "verifharness/cmd/c11"

var kindTypes = map[string]reflect.Type{
	"int":      reflect.TypeOf(int(0)),
	"string":   reflect.TypeOf(""),
	"bool":     reflect.TypeOf(false),
	"float":    reflect.TypeOf(float64(0)),
	"dep":      reflect.TypeOf((*Dep)(nil)),
	"depi":     reflect.TypeOf((*DepI)(nil)).Elem(),
	"depis":    reflect.TypeOf([]DepI(nil)),
	"logger":   reflect.TypeOf((*syslog.Logger)(nil)).Elem(),
	"cfgplain": reflect.TypeOf(CfgPlain{}),
	"cfgp":     reflect.TypeOf(CfgA{}),
	"map":      reflect.TypeOf(map[string]any(nil)),
}

func buildType(nodes []Node) reflect.Type {
	var fields []reflect.StructField
	for _, n := range nodes {
		f := reflect.StructField{Name: n.N, Tag: reflect.StructTag(n.Tags)}
		if !n.E {
			f.PkgPath = pkgPath
		}
		if n.K == "struct" {
			t := buildType(n.Fs)
			if n.Ptr {
				t = reflect.PointerTo(t)
			}
			f.Type = t
			f.Anonymous = n.Anon
		} else {
			t, ok := kindTypes[n.K]
			if !ok {
				panic("bad kind " + n.K)
			}
			f.Type = t
			f.Anonymous = n.Anon
		}
		fields = append(fields, f)
	}
	return reflect.StructOf(fields)
}

// access a field even if it is unexported (the harness only reads, and pre-allocates pointers before Run)
func open(v reflect.Value) reflect.Value {
	if v.CanAddr() {
		return reflect.NewAt(v.Type(), unsafe.Pointer(v.UnsafeAddr())).Elem()
	}
	return v
}

// prealloc makes the pointer-to-struct fields marked "pre" non-nil, so that a scan that wrongly follows
// pointers finds something to write into
func prealloc(v reflect.Value, nodes []Node) {
	for _, n := range nodes {
		if n.K != "struct" {
			continue
		}
		f := open(v.FieldByName(n.N))
		if n.Ptr {
			if !n.Pre {
				continue
			}
			f.Set(reflect.New(f.Type().Elem()))
			f = f.Elem()
		}
		prealloc(f, n.Fs)
	}
}

func render(v reflect.Value) string {
	switch v.Kind() {
	case reflect.Bool, reflect.Int, reflect.Int64, reflect.Float64, reflect.String:
		return fmt.Sprint(v.Interface())
	case reflect.Ptr:
		if v.IsNil() {
			return "nil"
		}
		return "ptr:" + v.Type().String()
	case reflect.Interface:
		if v.IsNil() {
			return "nil"
		}
		return "iface:" + v.Elem().Type().String()
	case reflect.Slice:
		if v.IsNil() {
			return "nil"
		}
		return fmt.Sprintf("len=%d", v.Len())
	case reflect.Map:
		if v.IsNil() {
			return "nil"
		}
		b, _ := json.Marshal(v.Interface())
		return "map:" + string(b)
	case reflect.Func:
		if v.IsNil() {
			return "nil"
		}
		return "func"
	}
	return "?" + v.Kind().String()
}

var depPtrType = reflect.TypeOf((*Dep)(nil))

// dump lists every leaf below v with its path
func dump(v reflect.Value, path string, out *[][]string) {
	for i := 0; i < v.NumField(); i++ {
		sf := v.Type().Field(i)
		f := open(v.Field(i))
		p := sf.Name
		if path != "" {
			p = path + "." + sf.Name
		}
		switch {
		case f.Kind() == reflect.Struct:
			dump(f, p, out)
		case f.Kind() == reflect.Ptr && f.Type() != depPtrType && f.Type().Elem().Kind() == reflect.Struct:
			if f.IsNil() {
				*out = append(*out, []string{p, "nil"})
			} else {
				*out = append(*out, []string{p, "nonnil"})
				dump(f.Elem(), p, out)
			}
		default:
			*out = append(*out, []string{p, render(f)})
		}
	}
}

func runCase(c Case) Out {
	out := Out{ID: c.ID}
	var rec *recorder
	var mainV, flatV reflect.Value
	var runErr error
	var a *app.App
	p := hx.Guard(func() {
		if c.Static != "" {
			mk, ok := staticShapes[c.Static]
			if !ok {
				panic("no static shape " + c.Static)
			}
			mainV = reflect.ValueOf(mk())
			if c.Flat != nil {
				mainFlat, ok := staticShapes[c.Static+"F"]
				if !ok {
					panic("no static flat shape " + c.Static)
				}
				flatV = reflect.ValueOf(mainFlat())
			}
		} else {
			mainV = reflect.New(buildType(c.Shape))
			if c.Flat != nil {
				flatV = reflect.New(buildType(c.Flat))
			}
		}
		prealloc(mainV.Elem(), c.Shape)
		out.Main = &Snap{Name: framework_helper.GetComponentName(mainV.Interface())}
		dump(mainV.Elem(), "", &out.Main.Before)
		comps := []any{mainV.Interface()}
		if c.Flat != nil {
			prealloc(flatV.Elem(), c.Flat)
			out.Flat = &Snap{Name: framework_helper.GetComponentName(flatV.Interface())}
			dump(flatV.Elem(), "", &out.Flat.Before)
			comps = append(comps, flatV.Interface())
		}
		rec = &recorder{DefaultTagScanDefinitionRegistryPostProcessor: processors.DefaultTagScanDefinitionRegistryPostProcessor{
			NodeType: "Recorded", Tag: "rec"}}
		aux := &auxScanner{processors.DefaultTagScanDefinitionRegistryPostProcessor{NodeType: "Aux", Tag: "aux"}}
		comps = append(comps, &Dep{}, rec, aux)
		a = app.NewApp()
		runErr = a.Run(app.SetConfigLoader(loader.NewRawLoader([]byte(c.Config))), app.SetComponents(comps...))
	})
	if out.Main != nil {
		_ = hx.Guard(func() { dump(mainV.Elem(), "", &out.Main.After) })
		_ = hx.Guard(func() { dumpLoggers(mainV.Elem(), "", out.Main.Name, &out.Main.Logs) })
		if out.Flat != nil {
			_ = hx.Guard(func() { dump(flatV.Elem(), "", &out.Flat.After) })
			_ = hx.Guard(func() { dumpLoggers(flatV.Elem(), "", out.Flat.Name, &out.Flat.Logs) })
		}
		if rec != nil {
			for _, r := range rec.recs {
				if r.Comp == out.Main.Name {
					out.Main.Props = append(out.Main.Props, r)
				} else if out.Flat != nil && r.Comp == out.Flat.Name {
					out.Flat.Props = append(out.Flat.Props, r)
				}
			}
		}
	}
	if a != nil {
		_ = hx.Guard(func() { out.Procs = procFacts(a) })
	}
	switch {
	case p != "":
		out.Out = "panic"
		out.Detail = p
	case runErr != nil:
		out.Out = "err"
		out.Detail = runErr.Error()
	default:
		out.Out = "ok"
	}
	if len(out.Detail) > 4000 {
		out.Detail = out.Detail[len(out.Detail)-4000:]
	}
	return out
}

// runChunk executes the cases in a child process, so that a crash the container causes outside the calling
// goroutine (the definition-registry processors run in goroutines; a panic there kills the process) or a
// fatal error becomes the OUTCOME of one case: a dying chunk is bisected down to the single cases.
func runChunk(cases []Case) []Out {
	if len(cases) == 0 {
		return nil
	}
	ctx, cancel := context.WithTimeout(context.Background(), time.Duration(60+len(cases))*time.Second)
	defer cancel()
	cmd := exec.CommandContext(ctx, os.Args[0])
	cmd.Env = append(os.Environ(), "VERIF_C11_CHILD=1")
	data, _ := json.Marshal(Input{Cases: cases})
	cmd.Stdin = bytes.NewReader(data)
	raw, err := cmd.CombinedOutput()
	for _, ln := range strings.Split(string(raw), "\n") {
		if strings.HasPrefix(ln, "@@JSON ") {
			var res struct {
				Outs []Out `json:"outs"`
			}
			if json.Unmarshal([]byte(ln[7:]), &res) == nil && len(res.Outs) == len(cases) {
				return res.Outs
			}
		}
	}
	if len(cases) == 1 {
		detail := string(raw)
		if i := strings.Index(detail, "panic:"); i >= 0 {
			detail = detail[i:]
		}
		if len(detail) > 600 {
			detail = detail[:600]
		}
		kind := "crash"
		if ctx.Err() != nil {
			kind = "hang"
		}
		return []Out{{ID: cases[0].ID, Out: kind, Detail: fmt.Sprintf("%v: %s", err, detail)}}
	}
	h := len(cases) / 2
	return append(runChunk(cases[:h]), runChunk(cases[h:])...)
}

func main() {
	hx.Quiet()
	var in Input
	hx.ReadInput(&in) // the input's `verbose` flag (inherited by the child processes) selects the formatting logger
	syslog.SetLogger(&prefLogger{loud: hx.IsVerbose()})
	if os.Getenv("VERIF_C11_CHILD") == "1" {
		outs := make([]Out, 0, len(in.Cases))
		for _, c := range in.Cases {
			outs = append(outs, runCase(c))
		}
		hx.WriteOutput(map[string]any{"outs": outs})
		return
	}
	var outs []Out
	const chunk = 128
	for i := 0; i < len(in.Cases); i += chunk {
		j := i + chunk
		if j > len(in.Cases) {
			j = len(in.Cases)
		}
		outs = append(outs, runChunk(in.Cases[i:j])...)
	}
	hx.WriteOutput(map[string]any{"outs": outs})
}
