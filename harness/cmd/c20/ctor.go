// Every legal way to come by one of the C20 containers.
//
// sync2.Map and list.ConcurrentSets are exported struct types whose zero value is a usable, empty container (they hold
// their sync.Map by value), so client code may declare one instead of calling the constructor: as a variable, as a struct
// field (plain or embedded), as an element of a slice, through new(T) or a composite literal.  A container obtained in
// any of these ways owes the same atomicity as one made by New() - in particular to its very FIRST operations, which in
// the stress / scan / free-history streams are issued by several goroutines at once (nothing touched the container
// before the barrier opens).  The generic concurrent set's type is unexported: its constructor is the only way.
//
//	new      sync2.New[K, V]() / list.NewConcurrentSets(arr...) / list.NewGenericConcurrentSets[T](arr...)
//	var      var m sync2.Map[K, V]; &m
//	field    a field in the middle of a struct
//	embed    an embedded field (methods promoted)
//	elem     an element of a slice of containers
//	newexpr  new(sync2.Map[K, V])
//	lit      &sync2.Map[K, V]{}
//
// Initial contents of a container that was not made by its constructor are installed with Store / PutAll before the
// goroutines start; the generators keep most of these cases EMPTY so that the first operation is a concurrent one.
package main

import (
	"github.com/go-kid/ioc/util/list"
	"github.com/go-kid/ioc/util/sync2"
)

type mapHolder struct {
	before int
	m      sync2.Map[int, int]
	after  string
}

type mapEmbedder struct {
	tag string
	sync2.Map[int, int]
}

type csetHolder struct {
	before int
	s      list.ConcurrentSets
	after  string
}

type csetEmbedder struct {
	tag string
	list.ConcurrentSets
}

// mapAPI is what the drivers use of a sync2.Map (the embedding struct offers it through promoted methods)
type mapAPI interface {
	Load(key int) (int, bool)
	Store(key int, value int)
	LoadOrStore(key int, value int) (int, bool)
	LoadOrStoreFn(key int, f func() int) (int, bool)
	Delete(key int)
	Range(f func(key int, value int) bool)
}

func makeMap(ctor string) mapAPI {
	switch ctor {
	case "", "new":
		return sync2.New[int, int]()
	case "var":
		var m sync2.Map[int, int]
		return &m
	case "field":
		h := &mapHolder{before: 1, after: "x"}
		return &h.m
	case "embed":
		return &mapEmbedder{tag: "x"}
	case "elem":
		arr := make([]sync2.Map[int, int], 3)
		return &arr[1]
	case "newexpr":
		return new(sync2.Map[int, int])
	case "lit":
		return &sync2.Map[int, int]{}
	}
	panic("bad map constructor " + ctor)
}

func makeCset(ctor string, arr ...string) (s list.Set) {
	switch ctor {
	case "", "new":
		return list.NewConcurrentSets(arr...) // the constructor with initial elements
	case "var":
		var v list.ConcurrentSets
		s = &v
	case "field":
		h := &csetHolder{before: 1, after: "x"}
		s = &h.s
	case "embed":
		s = &csetEmbedder{tag: "x"}
	case "elem":
		vs := make([]list.ConcurrentSets, 3)
		s = &vs[1]
	case "newexpr":
		s = new(list.ConcurrentSets)
	case "lit":
		s = &list.ConcurrentSets{}
	default:
		panic("bad set constructor " + ctor)
	}
	if len(arr) != 0 {
		s.PutAll(arr...)
	}
	return
}

func makeGset(ctor string, arr ...int) list.GenericSet[int] {
	switch ctor {
	case "", "new":
		return list.NewGenericConcurrentSets[int](arr...)
	}
	panic("bad generic set constructor " + ctor)
}
