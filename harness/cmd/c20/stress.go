// Stress stream of the C20 driver: real parallelism.
//
// A case is G operation lists (one per goroutine), a contents list installed before the goroutines start
// (constructor arguments of the sets / Stores on the map) and a sequential coda.  One round =
//
//	fresh container  ->  G goroutines spin on one flag, are released together, run their lists with NO
//	synchronisation added by the driver (results go to goroutine-private slices)  ->  join  ->
//	full contents (Range / ToArray, sorted)  ->  the coda, sequentially
//
// A case is run for `rounds` rounds; the distinct observations (with their multiplicities) are reported and
// every one of them is evaluated by the Coq oracle.  The case runs in a child process: a data-race report
// (-race build, exit code 66), an unrecoverable runtime error ("concurrent map writes") or a hang is the
// outcome of that case.
//
// TIMED cases (StressCase.Timed; the "scan" stream: goroutines that Range / ToArray / ForEach / Load while others
// store and delete the same few keys): every operation takes a ticket from ONE atomic counter before its call and
// another one after it returned, so "res(a) < inv(b)" implies that a returned before b was invoked.  The tickets
// make every round a different observation; a round is reported (a) if it is among the Emit rounds in which the most
// full scans overlapped a write or delete (in tickets: the goroutines really ran at the same time) or (b) if the
// driver's own copy of the provenance / completeness conditions (Model/ScanCheck.v) flags it - that copy only
// SELECTS rounds for the Coq oracle, it never decides anything.
package main

import (
	"bytes"
	"encoding/json"
	"fmt"
	"os"
	"os/exec"
	"runtime"
	"sort"
	"strings"
	"sync"
	"sync/atomic"
	"time"

	"github.com/go-kid/ioc/component_definition"
	"github.com/go-kid/ioc/container"
	"github.com/go-kid/ioc/container/support"
	"github.com/go-kid/ioc/util/list"
	"verifharness/hx"
)

type SOp struct {
	// map: load store los losf delete range rangestop
	// set: put exists remove toarray foreach length existsany existsall putall removeall
	// reg: load (GetMetaByName) store (RegisterMeta) losf (GetMetaOrRegister) range (GetMetas) rangeopt (GetMetas(opt))
	Op string `json:"op"`
	K  int    `json:"k"`
	V  int    `json:"v"`
	Ks []int  `json:"ks"`
}

// SRes is the compact result of one operation: F = found / loaded / boolean answer, V = value / length,
// P = reported pairs sorted by key (sets report value 0).
type SRes struct {
	F bool     `json:"f,omitempty"`
	V int      `json:"v,omitempty"`
	P [][2]int `json:"p,omitempty"`
	I int      `json:"i,omitempty"` // timed cases: ticket taken before the call
	R int      `json:"r,omitempty"` // timed cases: ticket taken after the return

	ptrs []*component_definition.Meta // reg: the definitions behind V / P (identity is checked after the join)
}

type StressCase struct {
	ID     int      `json:"id"`
	Target string   `json:"target"` // map | cset | gset | reg
	Ctor   string   `json:"ctor"`   // how the container is obtained (ctor.go); "" = its constructor
	NKeys  int      `json:"nkeys"`
	Init   [][2]int `json:"init"`  // contents before the goroutines start
	Progs  [][]SOp  `json:"progs"` // one list per goroutine
	Fin    []SOp    `json:"fin"`   // sequential coda after the join
	Rounds int      `json:"rounds"`
	Timed  bool     `json:"timed"` // take tickets around every operation
	Emit   int      `json:"emit"`  // timed: report the Emit most contended rounds (and the rounds the pre-screen flags)
}

type StressObs struct {
	Runs  [][]SRes `json:"runs"`
	Final [][2]int `json:"final"`
	Fin   []SRes   `json:"fin"`
	Count int      `json:"count"`
	// timed cases: tickets of the final contents scan; whether the driver's pre-screen flagged the round
	FinalI  int  `json:"final_i,omitempty"`
	FinalR  int  `json:"final_r,omitempty"`
	Flagged bool `json:"flagged,omitempty"`
	Overlap int  `json:"overlap,omitempty"` // full scans that overlapped a write / delete of another goroutine (tickets)
}

type StressOut struct {
	ID      int         `json:"id"`
	Outcome string      `json:"outcome"` // ok | race | panic | crash | hang
	Report  string      `json:"report"`
	Rounds  int         `json:"rounds"`
	Obs     []StressObs `json:"obs"`
	Flagged int         `json:"flagged"` // timed: rounds the pre-screen flagged (all rounds, reported or not)
	Overlap int         `json:"overlap"` // timed: rounds in which some full scan overlapped a write / delete
}

type stressTarget interface {
	do(o SOp) SRes
	contents() [][2]int
}

func sortP(p [][2]int) [][2]int {
	sort.Slice(p, func(i, j int) bool {
		if p[i][0] != p[j][0] {
			return p[i][0] < p[j][0]
		}
		return p[i][1] < p[j][1]
	})
	return p
}

// ---- sync2.Map ---------------------------------------------------------------------------------------

type sMap struct{ m mapAPI }

func (t sMap) contents() [][2]int {
	p := [][2]int{}
	t.m.Range(func(k, v int) bool { p = append(p, [2]int{k, v}); return true })
	return sortP(p)
}

func (t sMap) do(o SOp) (r SRes) {
	switch o.Op {
	case "load":
		r.V, r.F = t.m.Load(o.K)
	case "store":
		t.m.Store(o.K, o.V)
	case "los":
		r.V, r.F = t.m.LoadOrStore(o.K, o.V)
	case "losf":
		r.V, r.F = t.m.LoadOrStoreFn(o.K, func() int { return o.V })
	case "delete":
		t.m.Delete(o.K)
	case "range":
		r.P = t.contents()
	case "rangestop": // the callback asks to stop after the first pair
		t.m.Range(func(k, v int) bool { r.P = append(r.P, [2]int{k, v}); return false })
	default:
		panic("bad map op " + o.Op)
	}
	return
}

// ---- the two concurrent sets -------------------------------------------------------------------------

type sSetAPI interface {
	Put(k int)
	PutAll(ks []int)
	ToArray() []int
	Exists(k int) bool
	ExistsAny(ks []int) bool
	ExistsAll(ks []int) bool
	Remove(k int)
	RemoveAll(ks []int)
	Length() int
	ForEach(f func(k int))
}

// string keys are prepared before the goroutines start (read-only afterwards)
type sCset struct {
	s     list.Set
	names []string
	back  map[string]int
}

func (t *sCset) strs(ks []int) []string {
	out := make([]string, len(ks))
	for i, k := range ks {
		out[i] = t.names[k]
	}
	return out
}
func (t *sCset) Put(k int)       { t.s.Put(t.names[k]) }
func (t *sCset) PutAll(ks []int) { t.s.PutAll(t.strs(ks)...) }
func (t *sCset) ToArray() (out []int) {
	for _, s := range t.s.ToArray() {
		out = append(out, t.back[s])
	}
	return
}
func (t *sCset) Exists(k int) bool       { return t.s.Exists(t.names[k]) }
func (t *sCset) ExistsAny(ks []int) bool { return t.s.ExistsAny(t.strs(ks)...) }
func (t *sCset) ExistsAll(ks []int) bool { return t.s.ExistsAll(t.strs(ks)...) }
func (t *sCset) Remove(k int)            { t.s.Remove(t.names[k]) }
func (t *sCset) RemoveAll(ks []int)      { t.s.RemoveAll(t.strs(ks)...) }
func (t *sCset) Length() int             { return t.s.Length() }
func (t *sCset) ForEach(f func(k int))   { t.s.ForEach(func(s string) { f(t.back[s]) }) }

type sGset struct{ s list.GenericSet[int] }

func (t sGset) Put(k int)               { t.s.Put(k) }
func (t sGset) PutAll(ks []int)         { t.s.PutAll(ks...) }
func (t sGset) ToArray() []int          { return t.s.ToArray() }
func (t sGset) Exists(k int) bool       { return t.s.Exists(k) }
func (t sGset) ExistsAny(ks []int) bool { return t.s.ExistsAny(ks...) }
func (t sGset) ExistsAll(ks []int) bool { return t.s.ExistsAll(ks...) }
func (t sGset) Remove(k int)            { t.s.Remove(k) }
func (t sGset) RemoveAll(ks []int)      { t.s.RemoveAll(ks...) }
func (t sGset) Length() int             { return t.s.Length() }
func (t sGset) ForEach(f func(k int))   { t.s.ForEach(f) }

type sSet struct{ s sSetAPI }

func pairsOf(ks []int) [][2]int {
	p := make([][2]int, 0, len(ks))
	for _, k := range ks {
		p = append(p, [2]int{k, 0})
	}
	return sortP(p)
}

func (t sSet) contents() [][2]int { return pairsOf(t.s.ToArray()) }

func (t sSet) do(o SOp) (r SRes) {
	switch o.Op {
	case "put":
		t.s.Put(o.K)
	case "exists":
		r.F = t.s.Exists(o.K)
	case "remove":
		t.s.Remove(o.K)
	case "toarray":
		r.P = pairsOf(t.s.ToArray())
	case "foreach":
		var ks []int
		t.s.ForEach(func(k int) { ks = append(ks, k) })
		r.P = pairsOf(ks)
	case "length":
		r.V = t.s.Length()
	case "existsany":
		r.F = t.s.ExistsAny(o.Ks)
	case "existsall":
		r.F = t.s.ExistsAll(o.Ks)
	case "putall":
		t.s.PutAll(o.Ks)
	case "removeall":
		t.s.RemoveAll(o.Ks)
	default:
		panic("bad set op " + o.Op)
	}
	return
}

// ---- the definition registry (container/support, what the factory and the parallel definition scan use) ----
//
// A definition is identified by the component it was built from: every GetMetaOrRegister / RegisterMeta call of a
// case passes its own component (ID = the operation's v), so "the value stored under a name" is the ID of the
// component behind the *Meta, and GetMetaOrRegister(name, c) "loaded" an existing definition iff it returns one that
// was not built from c.  GetMetas results are reported in the order the registry returns them (not sorted here).

type regComp struct{ ID int }

type sReg struct {
	r     container.DefinitionRegistry
	names []string
	back  map[string]int
}

func regID(m *component_definition.Meta) int {
	if c, ok := m.Raw.(*regComp); ok {
		return c.ID
	}
	return 0
}

func (t *sReg) list(opts ...container.Option) (r SRes) {
	for _, m := range t.r.GetMetas(opts...) {
		r.P = append(r.P, [2]int{t.back[m.Name()], regID(m)})
		r.ptrs = append(r.ptrs, m)
	}
	return
}

func (t *sReg) contents() [][2]int { return t.list().P }

func (t *sReg) do(o SOp) (r SRes) {
	switch o.Op {
	case "load":
		if m := t.r.GetMetaByName(t.names[o.K]); m != nil {
			r.F, r.V, r.ptrs = true, regID(m), []*component_definition.Meta{m}
		}
	case "store":
		m := component_definition.NewMeta(&regComp{ID: o.V})
		m.SetName(t.names[o.K])
		t.r.RegisterMeta(m)
	case "losf":
		c := &regComp{ID: o.V}
		m := t.r.GetMetaOrRegister(t.names[o.K], c)
		if m == nil {
			panic("GetMetaOrRegister returned nil")
		}
		r.V, r.F, r.ptrs = regID(m), m.Raw != any(c), []*component_definition.Meta{m}
	case "range":
		r = t.list()
	case "rangeopt":
		r = t.list(func(m *component_definition.Meta) bool { return true }, func(m *component_definition.Meta) bool { return m != nil })
	default:
		panic("bad registry op " + o.Op)
	}
	return
}

// one component, one definition: two different *Meta that claim the same component were both handed out
func identityProblem(rss ...[]SRes) string {
	seen := map[int]*component_definition.Meta{}
	for _, rs := range rss {
		for _, r := range rs {
			for i, m := range r.ptrs {
				id := r.V
				if len(r.P) > 0 {
					id = r.P[i][1]
				}
				if old, ok := seen[id]; ok && old != m {
					return fmt.Sprintf("component %d is behind two different definitions (%p and %p)", id, old, m)
				}
				seen[id] = m
			}
		}
	}
	return ""
}

func newStressTarget(c StressCase) stressTarget {
	switch c.Target {
	case "reg":
		t := &sReg{r: support.DefaultDefinitionRegistry(), back: map[string]int{}}
		for k := 0; k < c.NKeys; k++ {
			s := fmt.Sprintf("n%03d", k)
			t.names = append(t.names, s)
			t.back[s] = k
		}
		for _, p := range c.Init {
			t.do(SOp{Op: "store", K: p[0], V: p[1]})
		}
		return t
	case "map":
		m := makeMap(c.Ctor)
		for _, p := range c.Init {
			m.Store(p[0], p[1])
		}
		return sMap{m}
	case "cset":
		t := &sCset{back: map[string]int{}}
		for k := 0; k < c.NKeys; k++ {
			s := fmt.Sprintf("k%03d", k)
			t.names = append(t.names, s)
			t.back[s] = k
		}
		var arr []string
		for _, p := range c.Init {
			arr = append(arr, t.names[p[0]])
		}
		t.s = makeCset(c.Ctor, arr...)
		return sSet{t}
	case "gset":
		var arr []int
		for _, p := range c.Init {
			arr = append(arr, p[0])
		}
		return sSet{sGset{makeGset(c.Ctor, arr...)}}
	}
	panic("bad target " + c.Target)
}

// ---- one round ---------------------------------------------------------------------------------------

func runStressRound(c StressCase) (obs StressObs, panicked string) {
	tg := newStressTarget(c)
	G := len(c.Progs)
	obs.Runs = make([][]SRes, G)
	panics := make([]string, G)
	var ready, goFlag int32
	var ticket int64 // timed cases; the contents at the start have the tickets 0
	var wg sync.WaitGroup
	for g := 0; g < G; g++ {
		wg.Add(1)
		go func(g int) {
			defer wg.Done()
			prog := c.Progs[g]
			res := make([]SRes, 0, len(prog))
			atomic.AddInt32(&ready, 1)
			// spin barrier: the only synchronisation between the goroutines is "released by main"
			for spins := 0; atomic.LoadInt32(&goFlag) == 0; spins++ {
				if spins > 5000 {
					runtime.Gosched()
				}
			}
			panics[g] = hx.Guard(func() {
				if c.Timed {
					for _, o := range prog {
						i := atomic.AddInt64(&ticket, 1)
						r := tg.do(o)
						r.I, r.R = int(i), int(atomic.AddInt64(&ticket, 1))
						res = append(res, r)
					}
					return
				}
				for _, o := range prog {
					res = append(res, tg.do(o))
				}
			})
			obs.Runs[g] = res
		}(g)
	}
	for atomic.LoadInt32(&ready) != int32(G) {
		runtime.Gosched()
	}
	atomic.StoreInt32(&goFlag, 1)
	wg.Wait()
	for g, p := range panics {
		if p != "" {
			return obs, fmt.Sprintf("goroutine %d: %s", g, p)
		}
	}
	panicked = hx.Guard(func() {
		obs.FinalI = int(atomic.AddInt64(&ticket, 1))
		obs.Final = tg.contents()
		obs.FinalR = int(atomic.AddInt64(&ticket, 1))
		if !c.Timed {
			obs.FinalI, obs.FinalR = 0, 0
		}
		obs.Fin = make([]SRes, 0, len(c.Fin))
		for _, o := range c.Fin {
			obs.Fin = append(obs.Fin, tg.do(o))
		}
	})
	if panicked == "" {
		panicked = identityProblem(append(append([][]SRes{}, obs.Runs...), obs.Fin)...)
	}
	return
}

func runStressCase(c StressCase) (out StressOut) {
	out = StressOut{ID: c.ID, Outcome: "ok"}
	rounds := c.Rounds
	if rounds <= 0 {
		rounds = 1
	}
	seen := map[string]int{}
	var best []StressObs // timed: the Emit most contended rounds so far, most contended first
	defer func() {
		if c.Timed && out.Outcome == "ok" {
			out.Obs = append(best, out.Obs...)
		}
	}()
	for r := 0; r < rounds; r++ {
		obs, p := runStressRound(c)
		out.Rounds++
		if p != "" {
			out.Outcome, out.Report = "panic", p
			return
		}
		if c.Timed {
			obs.Flagged = timedSuspicious(c, obs)
			if obs.Flagged {
				out.Flagged++
			}
			obs.Overlap = timedOverlap(c, obs)
			if obs.Overlap > 0 {
				out.Overlap++
			}
			obs.Count = 1
			if obs.Flagged {
				if out.Flagged <= 2 {
					out.Obs = append(out.Obs, obs)
				}
				continue
			}
			best = append(best, obs)
			sort.SliceStable(best, func(i, j int) bool { return best[i].Overlap > best[j].Overlap })
			if len(best) > c.Emit {
				best = best[:c.Emit]
			}
			continue
		}
		data, _ := json.Marshal(obs)
		if i, ok := seen[string(data)]; ok {
			out.Obs[i].Count++
			continue
		}
		seen[string(data)] = len(out.Obs)
		obs.Count = 1
		out.Obs = append(out.Obs, obs)
	}
	return
}

// ---- timed cases: selection of rounds -------------------------------------------------------------------
//
// A copy of Model/ScanCheck.v (pair_ok / stable_w) used ONLY to pick the rounds worth sending to the Coq oracle
// among hundreds: a round it flags is evaluated by scan_check like any other, a round it misses is simply not
// selected (the first Emit rounds are always evaluated).

// timedOverlap counts the full scans of a round whose interval overlaps a write / delete of another goroutine.
func timedOverlap(c StressCase, obs StressObs) (n int) {
	type iv struct{ g, i, r int }
	var muts, scans []iv
	for g, prog := range c.Progs {
		for i, o := range prog {
			if i >= len(obs.Runs[g]) {
				break
			}
			r := obs.Runs[g][i]
			switch o.Op {
			case "store", "put", "delete", "remove":
				muts = append(muts, iv{g, r.I, r.R})
			case "los", "losf":
				if !r.F {
					muts = append(muts, iv{g, r.I, r.R})
				}
			case "range", "toarray", "foreach":
				scans = append(scans, iv{g, r.I, r.R})
			}
		}
	}
	for _, s := range scans {
		for _, m := range muts {
			if m.g != s.g && !(s.r < m.i) && !(m.r < s.i) {
				n++
				break
			}
		}
	}
	return
}

type tEff struct {
	k, v     int
	del      bool
	inv, res int
}

func timedSuspicious(c StressCase, obs StressObs) bool {
	byKey := map[int][]tEff{}
	add := func(e tEff) { byKey[e.k] = append(byKey[e.k], e) }
	for _, p := range c.Init {
		add(tEff{k: p[0], v: p[1]})
	}
	for g, prog := range c.Progs {
		for i, o := range prog {
			if i >= len(obs.Runs[g]) {
				break
			}
			r := obs.Runs[g][i]
			switch o.Op {
			case "store":
				add(tEff{k: o.K, v: o.V, inv: r.I, res: r.R})
			case "put":
				add(tEff{k: o.K, inv: r.I, res: r.R})
			case "los", "losf":
				if !r.F {
					add(tEff{k: o.K, v: o.V, inv: r.I, res: r.R})
				}
			case "delete", "remove":
				add(tEff{k: o.K, del: true, inv: r.I, res: r.R})
			}
		}
	}
	pairOK := func(k, v, inv, res int) bool {
		for _, w := range byKey[k] {
			if w.del || w.v != v || res < w.inv {
				continue
			}
			over := false
			for _, u := range byKey[k] {
				if w.res < u.inv && u.res < inv {
					over = true
					break
				}
			}
			if !over {
				return true
			}
		}
		return false
	}
	complete := func(keys []int, pairs [][2]int, inv, res int) bool {
		for _, k := range keys {
			for _, w := range byKey[k] {
				if w.del || !(w.res < inv) {
					continue
				}
				stable := true
				for _, u := range byKey[k] {
					if !(u.res < w.inv || res < u.inv || (!u.del && u.v == w.v)) {
						stable = false
						break
					}
				}
				if !stable {
					continue
				}
				found := false
				for _, p := range pairs {
					if p[0] == k && p[1] == w.v {
						found = true
					}
				}
				if !found {
					return false
				}
			}
		}
		return true
	}
	all := make([]int, c.NKeys)
	for k := range all {
		all[k] = k
	}
	check := func(o SOp, r SRes) bool {
		var pairs [][2]int
		var keys []int
		full := true
		switch o.Op {
		case "range", "toarray", "foreach":
			pairs, keys = r.P, all
		case "rangestop":
			pairs, full = r.P, false
		case "load", "exists":
			keys = []int{o.K}
			if r.F {
				pairs = [][2]int{{o.K, r.V}}
			}
		case "los", "losf":
			if !r.F {
				return true
			}
			pairs, keys = [][2]int{{o.K, r.V}}, []int{o.K}
		default:
			return true
		}
		for i, p := range pairs {
			if i > 0 && pairs[i-1][0] >= p[0] {
				return false
			}
			if !pairOK(p[0], p[1], r.I, r.R) {
				return false
			}
		}
		return !full || complete(keys, pairs, r.I, r.R)
	}
	for g, prog := range c.Progs {
		for i, o := range prog {
			if i < len(obs.Runs[g]) && !check(o, obs.Runs[g][i]) {
				return true
			}
		}
	}
	return !check(SOp{Op: "range"}, SRes{P: obs.Final, I: obs.FinalI, R: obs.FinalR})
}

// ---- parent ------------------------------------------------------------------------------------------

func runStressChild(self string, c StressCase) (out StressOut) {
	out = StressOut{ID: c.ID}
	data, _ := json.Marshal(c)
	cmd := exec.Command(self, "-stress-child")
	cmd.Stdin = bytes.NewReader(data)
	// every goroutine of a round is joined before the child exits: no need for the race runtime's 1 s sleep at exit
	cmd.Env = append(os.Environ(), "GORACE=halt_on_error=1 exitcode=66 atexit_sleep_ms=0")
	var buf bytes.Buffer
	cmd.Stdout, cmd.Stderr = &buf, &buf
	if err := cmd.Start(); err != nil {
		out.Outcome, out.Report = "crash", err.Error()
		return
	}
	done := make(chan error, 1)
	go func() { done <- cmd.Wait() }()
	var err error
	select {
	case err = <-done:
	case <-time.After(120 * time.Second):
		cmd.Process.Kill()
		<-done
		out.Outcome = "hang"
		return
	}
	s := buf.String()
	if strings.Contains(s, "WARNING: DATA RACE") || cmd.ProcessState.ExitCode() == 66 {
		out.Outcome = "race"
		if i := strings.Index(s, "WARNING: DATA RACE"); i >= 0 {
			s = s[i:]
		}
		if len(s) > 2400 {
			s = s[:2400]
		}
		out.Report = s
		return
	}
	if i := strings.LastIndex(s, "@@JSON "); i >= 0 && err == nil {
		var child StressOut
		line := s[i+7:]
		if j := strings.IndexByte(line, '\n'); j >= 0 {
			line = line[:j]
		}
		if json.Unmarshal([]byte(line), &child) == nil {
			return child
		}
	}
	out.Outcome = "crash"
	if len(s) > 1500 {
		s = s[:700] + "\n...\n" + s[len(s)-700:]
	}
	out.Report = s
	return
}

func runStressAll(cs []StressCase, par int) []StressOut {
	self, _ := os.Executable()
	outs := make([]StressOut, len(cs))
	if par <= 0 {
		par = 4
	}
	sem := make(chan struct{}, par)
	var wg sync.WaitGroup
	for i, c := range cs {
		wg.Add(1)
		sem <- struct{}{}
		go func(i int, c StressCase) {
			defer wg.Done()
			defer func() { <-sem }()
			outs[i] = runStressChild(self, c)
		}(i, c)
	}
	wg.Wait()
	return outs
}
