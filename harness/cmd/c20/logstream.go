// Log stream of the C20 driver: the library's own logger (syslog) under concurrent use.
//
// App.Close reports every failing closer with s.logger().Errorf from the closer's own goroutine, the scanning phase
// logs from its goroutines, and all of them go through loggers that are SHARED: syslog.Pref(x) hands out one cached
// logger per prefix, the package-level functions use the one root logger.  What a logger owes under concurrent use:
// no data race (the -race build of this stream), and every line arrives WHOLE - the output of a round is an
// interleaving of the goroutines' lines, each goroutine's lines in its program order, nothing spliced, lost or doubled.
//
// A case = the level of the root logger, a list of loggers (prefix chains: syslog.Pref(p0).Pref(p1)...; resolved at
// every call, as the library does), one list of log calls per goroutine.  The child process points the variable
// os.Stderr at a file of its own and THEN sets the level: syslog.Level makes a new root logger whose *log.Logger writes
// to the *os.File os.Stderr names at that moment - the library's own logger, not a replacement.  Phase A runs all lists
// sequentially (the reference: line k belongs to the k-th call that prints); phase B runs `rounds` rounds with the
// goroutines released together by the spin barrier.  The file is read back; every line of phase B is looked up (time
// stamp removed) among the lines of phase A: the round is reported as the sequence of their numbers, 0 = a line that
// no call prints.  The verdict is Check_C20.log_ok, evaluated in Coq.
//
// Operands: strings, ints, and error / fmt.Stringer values whose Error() / String() yields the processor before it
// answers (a formatted operand that does some work while the logger is in the middle of a line).
package main

import (
	"bytes"
	"encoding/json"
	"fmt"
	"os"
	"os/exec"
	"regexp"
	"runtime"
	"strings"
	"sync"
	"sync/atomic"
	"time"

	"github.com/go-kid/ioc/syslog"
	"verifharness/hx"
)

type LogArg struct {
	K string `json:"k"` // s string | d int | e error (yields inside Error()) | g fmt.Stringer (yields inside String())
	S string `json:"s"`
	N int    `json:"n"`
}

type LogOp struct {
	L    int      `json:"l"`  // 0 = the package-level functions (the root logger); k > 0 = Loggers[k-1]
	Lv   string   `json:"lv"` // trace | debug | info | warn | error
	F    bool     `json:"f"`  // true: the formatting method (Errorf(fmt, args...)); false: Error(args...)
	Fmt  string   `json:"fmt"`
	Args []LogArg `json:"args"`
}

type LogCase struct {
	ID      int        `json:"id"`
	Lv      string     `json:"lv"`      // level of the root logger
	Loggers [][]string `json:"loggers"` // prefix chains
	Progs   [][]LogOp  `json:"progs"`
	Rounds  int        `json:"rounds"`
	Procs   int        `json:"procs"`
}

type LogOut struct {
	ID      int      `json:"id"`
	Outcome string   `json:"outcome"` // ok | race | panic | crash | hang
	Report  string   `json:"report"`
	Ref     []string `json:"ref"`    // the lines of the sequential phase, time stamp removed
	Rounds  [][]int  `json:"rounds"` // per round: the lines as 1-based positions in Ref, 0 = unknown
	Bad     []string `json:"bad"`    // the first unknown lines, raw
}

type slowErr struct{ s string }

func (e slowErr) Error() string { runtime.Gosched(); return e.s }

type slowStr struct{ s string }

func (e slowStr) String() string { runtime.Gosched(); return e.s }

func logArgs(as []LogArg) []any {
	out := make([]any, 0, len(as))
	for _, a := range as {
		switch a.K {
		case "s":
			out = append(out, a.S)
		case "d":
			out = append(out, a.N)
		case "e":
			out = append(out, error(slowErr{a.S}))
		case "g":
			out = append(out, fmt.Stringer(slowStr{a.S}))
		default:
			panic("bad log operand " + a.K)
		}
	}
	return out
}

func logDo(c *LogCase, o LogOp) {
	args := logArgs(o.Args)
	if o.L == 0 {
		switch {
		case o.Lv == "trace" && o.F:
			syslog.Tracef(o.Fmt, args...)
		case o.Lv == "trace":
			syslog.Trace(args...)
		case o.Lv == "debug" && o.F:
			syslog.Debugf(o.Fmt, args...)
		case o.Lv == "debug":
			syslog.Debug(args...)
		case o.Lv == "info" && o.F:
			syslog.Infof(o.Fmt, args...)
		case o.Lv == "info":
			syslog.Info(args...)
		case o.Lv == "warn" && o.F:
			syslog.Warnf(o.Fmt, args...)
		case o.Lv == "warn":
			syslog.Warn(args...)
		case o.Lv == "error" && o.F:
			syslog.Errorf(o.Fmt, args...)
		case o.Lv == "error":
			syslog.Error(args...)
		default:
			panic("bad log level " + o.Lv)
		}
		return
	}
	chain := c.Loggers[o.L-1]
	l := syslog.Pref(chain[0]) // the cached, shared logger of that prefix
	for _, p := range chain[1:] {
		l = l.Pref(p)
	}
	switch {
	case o.Lv == "trace" && o.F:
		l.Tracef(o.Fmt, args...)
	case o.Lv == "trace":
		l.Trace(args...)
	case o.Lv == "debug" && o.F:
		l.Debugf(o.Fmt, args...)
	case o.Lv == "debug":
		l.Debug(args...)
	case o.Lv == "info" && o.F:
		l.Infof(o.Fmt, args...)
	case o.Lv == "info":
		l.Info(args...)
	case o.Lv == "warn" && o.F:
		l.Warnf(o.Fmt, args...)
	case o.Lv == "warn":
		l.Warn(args...)
	case o.Lv == "error" && o.F:
		l.Errorf(o.Fmt, args...)
	case o.Lv == "error":
		l.Error(args...)
	default:
		panic("bad log level " + o.Lv)
	}
}

var logStamp = regexp.MustCompile(`^\[ioc\] \d{4}/\d{2}/\d{2} \d{2}:\d{2}:\d{2} `)

const logMark = "@@LOGROUND"

func runLogCase(c LogCase) (out LogOut) {
	out = LogOut{ID: c.ID, Outcome: "ok"}
	if c.Procs > 0 {
		runtime.GOMAXPROCS(c.Procs)
	}
	lv, ok := syslog.String2Lv[c.Lv]
	if !ok {
		out.Outcome, out.Report = "crash", "bad level "+c.Lv
		return
	}
	sink, err := os.CreateTemp("", "c20log")
	if err != nil {
		out.Outcome, out.Report = "crash", err.Error()
		return
	}
	defer os.Remove(sink.Name())
	os.Stderr = sink // what the library's logger will write to; race reports use file descriptor 2 itself
	syslog.Level(lv) // the library makes its root logger anew, on that file
	mark := func() { fmt.Fprintln(sink, logMark) }
	p := hx.Guard(func() {
		for _, prog := range c.Progs { // phase A: the reference
			for _, o := range prog {
				logDo(&c, o)
			}
		}
	})
	if p != "" {
		out.Outcome, out.Report = "panic", "sequential phase: "+p
		return
	}
	mark()
	G := len(c.Progs)
	for r := 0; r < c.Rounds; r++ {
		panics := make([]string, G)
		var ready, goFlag int32
		var wg sync.WaitGroup
		for g := 0; g < G; g++ {
			wg.Add(1)
			go func(g int) {
				defer wg.Done()
				atomic.AddInt32(&ready, 1)
				for spins := 0; atomic.LoadInt32(&goFlag) == 0; spins++ {
					if spins > 5000 {
						runtime.Gosched()
					}
				}
				panics[g] = hx.Guard(func() {
					for _, o := range c.Progs[g] {
						logDo(&c, o)
					}
				})
			}(g)
		}
		for atomic.LoadInt32(&ready) != int32(G) {
			runtime.Gosched()
		}
		atomic.StoreInt32(&goFlag, 1)
		wg.Wait()
		for g, p := range panics {
			if p != "" {
				out.Outcome, out.Report = "panic", fmt.Sprintf("round %d goroutine %d: %s", r, g, p)
				return
			}
		}
		mark()
	}
	data, err := os.ReadFile(sink.Name())
	if err != nil {
		out.Outcome, out.Report = "crash", err.Error()
		return
	}
	text := string(data)
	if strings.HasSuffix(text, "\n") {
		text = text[:len(text)-1]
	}
	ref := map[string]int{}
	phase := 0
	var cur []int
	for _, ln := range strings.Split(text, "\n") {
		if ln == logMark {
			if phase > 0 {
				out.Rounds = append(out.Rounds, cur)
			}
			phase, cur = phase+1, []int{}
			continue
		}
		body, stamped := ln, false
		if loc := logStamp.FindStringIndex(ln); loc != nil {
			body, stamped = ln[loc[1]:], true
		}
		if phase == 0 {
			out.Ref = append(out.Ref, body)
			if _, dup := ref[body]; !dup && stamped {
				ref[body] = len(out.Ref)
			}
			continue
		}
		k := 0
		if stamped {
			k = ref[body]
		}
		if k == 0 && len(out.Bad) < 6 {
			if len(ln) > 400 {
				ln = ln[:400] + "..."
			}
			out.Bad = append(out.Bad, ln)
		}
		cur = append(cur, k)
	}
	return
}

func runLogChild(self string, c LogCase) (out LogOut) {
	out = LogOut{ID: c.ID}
	data, _ := json.Marshal(c)
	cmd := exec.Command(self, "-log-child")
	cmd.Stdin = bytes.NewReader(data)
	cmd.Env = append(os.Environ(), "GORACE=halt_on_error=1 exitcode=66 atexit_sleep_ms=0")
	var buf bytes.Buffer
	cmd.Stdout, cmd.Stderr = &buf, &buf
	if err := cmd.Start(); err != nil {
		out.Outcome, out.Report = "crash", err.Error()
		return
	}
	done := make(chan error, 1)
	go func() { done <- cmd.Wait() }()
	var err error
	select {
	case err = <-done:
	case <-time.After(90 * time.Second):
		cmd.Process.Kill()
		<-done
		out.Outcome = "hang"
		return
	}
	s := buf.String()
	if strings.Contains(s, "WARNING: DATA RACE") || cmd.ProcessState.ExitCode() == 66 {
		out.Outcome = "race"
		if i := strings.Index(s, "WARNING: DATA RACE"); i >= 0 {
			s = s[i:]
		}
		if len(s) > 2400 {
			s = s[:2400]
		}
		out.Report = s
		return
	}
	if i := strings.LastIndex(s, "@@JSON "); i >= 0 && err == nil {
		var child LogOut
		line := s[i+7:]
		if j := strings.IndexByte(line, '\n'); j >= 0 {
			line = line[:j]
		}
		if json.Unmarshal([]byte(line), &child) == nil {
			return child
		}
	}
	out.Outcome = "crash"
	if len(s) > 1500 {
		s = s[:700] + "\n...\n" + s[len(s)-700:]
	}
	out.Report = s
	return
}

func runLogAll(cs []LogCase, par int) []LogOut {
	self, _ := os.Executable()
	outs := make([]LogOut, len(cs))
	if par <= 0 {
		par = 4
	}
	sem := make(chan struct{}, par)
	var wg sync.WaitGroup
	for i, c := range cs {
		wg.Add(1)
		sem <- struct{}{}
		go func(i int, c LogCase) {
			defer wg.Done()
			defer func() { <-sem }()
			outs[i] = runLogChild(self, c)
		}(i, c)
	}
	wg.Wait()
	return outs
}
