// Driver for C20.
//
//	mode "seq"   sequential differential runs of sync2.Map / ConcurrentSets / generic concurrent set
//	mode "hist"  concurrent histories of the real containers with forced interleavings: an operation's
//	             callback (the f of LoadOrStoreFn, the Range / ForEach callback at a chosen key) starts other
//	             threads and/or blocks until other threads have finished.  Events (Inv, Res, f-called,
//	             visit) are totally ordered by appends under one mutex.
//	mode "race"  (meaningful in the -race build) starts and shuts down real containers whose definition
//	             scanners fail for chosen components; every scenario runs in a child process so that a
//	             data-race report (exit code 66) is the outcome of that scenario.
//	mode "log"   (logstream.go) the library's own logger under concurrent use: no race, every line arrives whole.
//	mode "stress" (run in the -race build AND in the normal build; see stress.go) G goroutines released together by a
//	             spin barrier run generated operation lists on ONE shared container, truly in parallel and without
//	             any synchronisation added by the driver; every case runs in a child process.
package main

import (
	"bytes"
	"encoding/json"
	"errors"
	"fmt"
	"os"
	"os/exec"
	"runtime"
	"sort"
	"strings"
	"sync"
	"sync/atomic"
	"time"

	"github.com/go-kid/ioc/app"
	"github.com/go-kid/ioc/container"
	"github.com/go-kid/ioc/syslog"
	"github.com/go-kid/ioc/util/list"
	"github.com/go-kid/ioc/util/sync2"
	"verifharness/hx"
)

// ---- operations --------------------------------------------------------------------------------

type Cb struct {
	Start []int `json:"start"`
	Wait  []int `json:"wait"`
}

type Op struct {
	Op   string `json:"op"` // load store los losf delete range | put exists remove toarray
	K    int    `json:"k"`
	V    int    `json:"v"`
	Cb   *Cb    `json:"cb"`
	CbAt int    `json:"cb_at"` // range/toarray: key at which the callback fires
}

type Res struct {
	Found  bool     `json:"found"`
	V      int      `json:"v"`
	Loaded bool     `json:"loaded"`
	Pairs  [][2]int `json:"pairs"`
}

type target interface {
	do(o Op, fn func(), visit func(k, v int)) Res
}

type mapT struct{ m mapAPI }

func (t mapT) do(o Op, fn func(), visit func(k, v int)) (r Res) {
	switch o.Op {
	case "load":
		r.V, r.Found = t.m.Load(o.K)
	case "store":
		t.m.Store(o.K, o.V)
	case "los":
		r.V, r.Loaded = t.m.LoadOrStore(o.K, o.V)
	case "losf":
		r.V, r.Loaded = t.m.LoadOrStoreFn(o.K, func() int {
			if fn != nil {
				fn()
			}
			return o.V
		})
	case "delete":
		t.m.Delete(o.K)
	case "range":
		r.Pairs = [][2]int{}
		t.m.Range(func(k, v int) bool {
			r.Pairs = append(r.Pairs, [2]int{k, v})
			if visit != nil {
				visit(k, v)
			}
			return true
		})
	default:
		panic("bad map op " + o.Op)
	}
	return
}

type setOps interface {
	put(k int)
	exists(k int) bool
	remove(k int)
	foreach(f func(k int))
}
type csetT struct{ s list.Set }

func key(k int) string { return fmt.Sprintf("k%03d", k) }
func unkey(s string) int {
	var k int
	fmt.Sscanf(s, "k%d", &k)
	return k
}
func (t csetT) put(k int)             { t.s.Put(key(k)) }
func (t csetT) exists(k int) bool     { return t.s.Exists(key(k)) }
func (t csetT) remove(k int)          { t.s.Remove(key(k)) }
func (t csetT) foreach(f func(k int)) { t.s.ForEach(func(s string) { f(unkey(s)) }) }

type gsetT struct{ s list.GenericSet[int] }

func (t gsetT) put(k int)             { t.s.Put(k) }
func (t gsetT) exists(k int) bool     { return t.s.Exists(k) }
func (t gsetT) remove(k int)          { t.s.Remove(k) }
func (t gsetT) foreach(f func(k int)) { t.s.ForEach(f) }

type setT struct{ s setOps }

func (t setT) do(o Op, fn func(), visit func(k, v int)) (r Res) {
	switch o.Op {
	case "put":
		t.s.put(o.K)
	case "exists":
		r.Found = t.s.exists(o.K)
	case "remove":
		t.s.remove(o.K)
	case "toarray":
		r.Pairs = [][2]int{}
		t.s.foreach(func(k int) {
			r.Pairs = append(r.Pairs, [2]int{k, 0})
			if visit != nil {
				visit(k, 0)
			}
		})
	default:
		panic("bad set op " + o.Op)
	}
	return
}

// newTarget: a fresh, empty container of the given kind, obtained the given way (ctor.go; "" = the constructor)
func newTarget(kind, ctor string) target {
	switch kind {
	case "map":
		return mapT{makeMap(ctor)}
	case "cset":
		return setT{csetT{makeCset(ctor)}}
	case "gset":
		return setT{gsetT{makeGset(ctor)}}
	}
	panic("bad target " + kind)
}

func sortPairs(r *Res) {
	sort.Slice(r.Pairs, func(i, j int) bool { return r.Pairs[i][0] < r.Pairs[j][0] })
}

// ---- seq ---------------------------------------------------------------------------------------

type SeqCase struct {
	ID     int    `json:"id"`
	Target string `json:"target"`
	Ctor   string `json:"ctor"` // how the container is obtained (ctor.go); "" = its constructor
	Ops    []Op   `json:"ops"`
}
type SeqOut struct {
	ID    int    `json:"id"`
	Res   []Res  `json:"res"`
	Panic string `json:"panic"`
}

func runSeq(c SeqCase) (out SeqOut) {
	out.ID = c.ID
	out.Panic = hx.Guard(func() {
		t := newTarget(c.Target, c.Ctor)
		for _, o := range c.Ops {
			r := t.do(o, nil, nil)
			sortPairs(&r)
			out.Res = append(out.Res, r)
		}
	})
	return
}

// ---- hist --------------------------------------------------------------------------------------

type Thread struct {
	Start string `json:"start"` // init | cb
	Ops   []Op   `json:"ops"`
}
type HistCase struct {
	ID      int      `json:"id"`
	Target  string   `json:"target"`
	Ctor    string   `json:"ctor"`    // how the container is obtained (ctor.go); "" = its constructor
	Barrier bool     `json:"barrier"` // the "init" threads spin on one flag and are released together
	Threads []Thread `json:"threads"`
}
type Ev struct {
	T  int    `json:"t"`
	E  string `json:"e"` // inv res fn visit
	Op int    `json:"op"`
	K  int    `json:"k"`
	V  int    `json:"v"`
	R  *Res   `json:"r,omitempty"`
}
type HistOut struct {
	ID      int    `json:"id"`
	Events  []Ev   `json:"events"`
	Outcome string `json:"outcome"` // ok | stuck | panic
	Detail  string `json:"detail"`
}

const waitTimeout = 5 * time.Second

func runHist(c HistCase) (out HistOut) {
	out = HistOut{ID: c.ID, Outcome: "ok"}
	var mu sync.Mutex
	rec := func(e Ev) {
		mu.Lock()
		out.Events = append(out.Events, e)
		mu.Unlock()
	}
	tg := newTarget(c.Target, c.Ctor)
	n := len(c.Threads)
	var ready, goFlag int32
	started := make([]sync.Once, n)
	finished := make([]chan struct{}, n)
	for i := range finished {
		finished[i] = make(chan struct{})
	}
	var stuck, panicked sync.Map
	var all sync.WaitGroup
	var startThread func(i int)
	runCb := func(cb *Cb) {
		if cb == nil {
			return
		}
		for _, j := range cb.Start {
			startThread(j)
		}
		for _, j := range cb.Wait {
			select {
			case <-finished[j]:
			case <-time.After(waitTimeout):
				stuck.Store(j, true)
			}
		}
	}
	startThread = func(i int) {
		started[i].Do(func() {
			all.Add(1)
			go func() {
				defer all.Done()
				defer close(finished[i])
				if c.Barrier && c.Threads[i].Start == "init" {
					// the first operations of the fresh container are issued at the same time
					atomic.AddInt32(&ready, 1)
					for spins := 0; atomic.LoadInt32(&goFlag) == 0; spins++ {
						if spins > 5000 {
							runtime.Gosched()
						}
					}
				}
				if p := hx.Guard(func() {
					for oi, o := range c.Threads[i].Ops {
						o := o
						rec(Ev{T: i, E: "inv", Op: oi})
						r := tg.do(o, func() {
							rec(Ev{T: i, E: "fn", Op: oi, K: o.K})
							runCb(o.Cb)
						}, func(k, v int) {
							rec(Ev{T: i, E: "visit", Op: oi, K: k, V: v})
							if o.Cb != nil && k == o.CbAt {
								runCb(o.Cb)
							}
						})
						sortPairs(&r)
						rec(Ev{T: i, E: "res", Op: oi, R: &r})
					}
				}); p != "" {
					panicked.Store(i, p)
				}
			}()
		})
	}
	ninit := 0
	for i, t := range c.Threads {
		if t.Start == "init" {
			startThread(i)
			ninit++
		}
	}
	if c.Barrier {
		for atomic.LoadInt32(&ready) != int32(ninit) {
			runtime.Gosched()
		}
		atomic.StoreInt32(&goFlag, 1)
	}
	done := make(chan struct{})
	go func() { all.Wait(); close(done) }()
	select {
	case <-done:
	case <-time.After(4 * waitTimeout):
		out.Outcome = "stuck"
	}
	stuck.Range(func(k, v any) bool { out.Outcome = "stuck"; return true })
	panicked.Range(func(k, v any) bool { out.Outcome = "panic"; out.Detail = fmt.Sprint(v); return true })
	mu.Lock()
	out.Events = append([]Ev{}, out.Events...)
	mu.Unlock()
	return
}

// ---- race --------------------------------------------------------------------------------------

type RaceCase struct {
	ID         int   `json:"id"`
	N          int   `json:"n"`          // plain components
	FailScan   []int `json:"fail_scan"`  // indices of components whose definition scan fails
	Closers    int   `json:"closers"`    // closer components
	FailClose  []int `json:"fail_close"` // indices of closers whose Close fails
	Scanners   int   `json:"scanners"`   // number of user scanners (each fails for the same components)
	Concurrent int   `json:"concurrent"` // additional direct LoadOrStoreFn stress goroutines (0 = none)
	// LogLv: "" = the container is silenced (app.LogLevel(LvFatal): the library's logger formats nothing); otherwise the
	// level (trace | debug | info | warn | error) the LIBRARY'S OWN logger runs at, its output sent to a discarded sink,
	// so that the race detector sees the logger's own memory accesses when several goroutines report at once
	LogLv string `json:"log_lv"`
}
type RaceOut struct {
	ID      int    `json:"id"`
	Outcome string `json:"outcome"` // ok | race | panic | crash | hang
	RunErr  bool   `json:"run_err"`
	NErrs   int    `json:"n_errs"` // how many component names the scan error mentions
	Report  string `json:"report"`
}

type plain struct {
	name string
	Dep  *shared `wire:""`
}

func (p *plain) Naming() string { return p.name }

type shared struct{ X int }

type rcloser struct {
	name string
	fail bool
	Dep  *shared `wire:""`
}

func (c *rcloser) Naming() string { return c.name }
func (c *rcloser) Close() error {
	if c.fail {
		return errors.New("close failed")
	}
	return nil
}

// failingScanner is a user-supplied DefinitionRegistryPostProcessor: it fails for chosen component names.
// With `log` it reports what it does through the library's shared, cached logger of its prefix, from the scanning
// goroutine it is called on (as a scanner of an application would).
type failingScanner struct {
	name string
	bad  map[string]bool
	log  bool
}

func (s *failingScanner) Naming() string { return s.name }
func (s *failingScanner) PostProcessDefinitionRegistry(registry container.DefinitionRegistry, component any, componentName string) error {
	registry.GetMetaOrRegister(componentName, component)
	if s.log {
		syslog.Pref("Scanner").Debugf("%s scans '%s' (%T)", s.name, componentName, component)
	}
	if s.bad[componentName] {
		err := errors.New("scan failed for " + componentName)
		if s.log {
			syslog.Pref("Scanner").Errorf("%s: %+v", s.name, err)
		}
		return err
	}
	return nil
}

func runRaceScenario(c RaceCase) (out RaceOut) {
	out = RaceOut{ID: c.ID, Outcome: "ok"}
	p := hx.Guard(func() {
		bad := map[string]bool{}
		for _, i := range c.FailScan {
			bad[fmt.Sprintf("plain%d", i)] = true
		}
		failClose := map[int]bool{}
		for _, i := range c.FailClose {
			failClose[i] = true
		}
		comps := []any{&shared{}}
		for i := 0; i < c.N; i++ {
			comps = append(comps, &plain{name: fmt.Sprintf("plain%d", i)})
		}
		for i := 0; i < c.Closers; i++ {
			comps = append(comps, &rcloser{name: fmt.Sprintf("closer%d", i), fail: failClose[i]})
		}
		for i := 0; i < c.Scanners; i++ {
			comps = append(comps, &failingScanner{name: fmt.Sprintf("scanner%d", i), bad: bad, log: c.LogLv != ""})
		}
		if c.Concurrent > 0 {
			m := sync2.New[int, int]()
			var wg sync.WaitGroup
			for g := 0; g < c.Concurrent; g++ {
				wg.Add(1)
				go func(g int) {
					defer wg.Done()
					for k := 0; k < 8; k++ {
						m.LoadOrStoreFn(k, func() int { return g })
						m.Load(k)
					}
				}(g)
			}
			wg.Wait()
		}
		lv := syslog.LvFatal
		if c.LogLv != "" {
			l, ok := syslog.String2Lv[c.LogLv]
			if !ok {
				panic("bad log level " + c.LogLv)
			}
			lv = l
			discardLibraryLog()
		}
		a := app.NewApp()
		err := a.Run(app.LogLevel(lv), app.SetConfigLoader(), app.SetComponents(comps...))
		if err != nil {
			out.RunErr = true
			out.NErrs = strings.Count(err.Error(), "scan failed for ")
		}
		a.Close()
	})
	if p != "" {
		out.Outcome, out.Report = "panic", p
	}
	return
}

// discardLibraryLog sends what the library's own logger prints from now on to a discarded sink WITHOUT replacing the
// logger: syslog.New (called by syslog.Level / app.LogLevel) wraps log.New(os.Stderr, ...), i.e. the *os.File the
// variable os.Stderr names at that moment.  The race detector's reports do not go through that variable (file
// descriptor 2), so the parent still sees them.
func discardLibraryLog() {
	if sink, err := os.OpenFile(os.DevNull, os.O_WRONLY, 0); err == nil {
		os.Stderr = sink
	}
}

// raceHangs counts the race scenarios that hung so far.  The first hangs get the full watchdog; once two scenarios
// have hung the verdict of the run no longer depends on the others, and they get a shorter one (a start that hangs
// for every pair of failing scanners would otherwise cost a minute per scenario).
var raceHangs int32

func runRaceChild(self string, c RaceCase) (out RaceOut) {
	out = RaceOut{ID: c.ID}
	data, _ := json.Marshal(c)
	cmd := exec.Command(self, "-race-child")
	cmd.Stdin = bytes.NewReader(data)
	cmd.Env = append(os.Environ(), "GORACE=halt_on_error=1 exitcode=66")
	var buf bytes.Buffer
	cmd.Stdout, cmd.Stderr = &buf, &buf
	done := make(chan error, 1)
	if err := cmd.Start(); err != nil {
		out.Outcome, out.Report = "crash", err.Error()
		return
	}
	go func() { done <- cmd.Wait() }()
	watchdog := 60 * time.Second
	if atomic.LoadInt32(&raceHangs) >= 2 {
		watchdog = 15 * time.Second
	}
	var err error
	select {
	case err = <-done:
	case <-time.After(watchdog):
		cmd.Process.Kill()
		<-done
		atomic.AddInt32(&raceHangs, 1)
		out.Outcome = "hang"
		out.Report = fmt.Sprintf("start + shutdown did not finish within %v", watchdog)
		return
	}
	s := buf.String()
	if strings.Contains(s, "WARNING: DATA RACE") || cmd.ProcessState.ExitCode() == 66 {
		out.Outcome = "race"
		if i := strings.Index(s, "WARNING: DATA RACE"); i >= 0 {
			s = s[i:]
		}
		if len(s) > 1800 {
			s = s[:1800]
		}
		out.Report = s
		return
	}
	if i := strings.LastIndex(s, "@@JSON "); i >= 0 && err == nil {
		var child RaceOut
		line := s[i+7:]
		if j := strings.IndexByte(line, '\n'); j >= 0 {
			line = line[:j]
		}
		if json.Unmarshal([]byte(line), &child) == nil {
			return child
		}
	}
	out.Outcome = "crash"
	if len(s) > 1500 {
		s = s[len(s)-1500:]
	}
	out.Report = s
	return
}

func main() {
	if len(os.Args) > 1 && os.Args[1] == "-race-child" {
		os.Args = os.Args[:1]
		var c RaceCase
		hx.ReadInput(&c)
		hx.Quiet()
		hx.WriteOutput(runRaceScenario(c))
		return
	}
	if len(os.Args) > 1 && os.Args[1] == "-stress-child" {
		os.Args = os.Args[:1]
		var c StressCase
		hx.ReadInput(&c)
		hx.Quiet()
		hx.WriteOutput(runStressCase(c))
		return
	}
	if len(os.Args) > 1 && os.Args[1] == "-log-child" {
		os.Args = os.Args[:1]
		_ = os.Unsetenv(hx.VerboseEnv) // this stream is about the library's own logger
		var c LogCase
		hx.ReadInput(&c)
		hx.WriteOutput(runLogCase(c))
		return
	}
	var in struct {
		Logs []LogCase    `json:"log"`
		Mode string       `json:"mode"`
		Seq  []SeqCase    `json:"seq"`
		Hist []HistCase   `json:"hist"`
		Race []RaceCase   `json:"race"`
		Strs []StressCase `json:"stress"`
		Par  int          `json:"par"`
	}
	hx.ReadInput(&in)
	hx.Quiet()
	res := map[string]any{}
	switch in.Mode {
	case "seq":
		outs := []SeqOut{}
		for _, c := range in.Seq {
			outs = append(outs, runSeq(c))
		}
		res["outs"] = outs
	case "hist":
		outs := []HistOut{}
		for _, c := range in.Hist {
			outs = append(outs, runHist(c))
		}
		res["outs"] = outs
	case "race":
		self, _ := os.Executable()
		outs := make([]RaceOut, len(in.Race))
		par := in.Par
		if par <= 0 {
			par = 4
		}
		sem := make(chan struct{}, par)
		var wg sync.WaitGroup
		for i, c := range in.Race {
			wg.Add(1)
			sem <- struct{}{}
			go func(i int, c RaceCase) {
				defer wg.Done()
				defer func() { <-sem }()
				outs[i] = runRaceChild(self, c)
			}(i, c)
		}
		wg.Wait()
		res["outs"] = outs
	case "stress":
		res["outs"] = runStressAll(in.Strs, in.Par)
	case "log":
		res["outs"] = runLogAll(in.Logs, in.Par)
	}
	hx.WriteOutput(res)
}
