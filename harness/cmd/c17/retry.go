// Retry groups of the C17 driver: the configuration points of ONE component definition populated twice.
//
// The components of such a group are LAZY (definition.LazyInitComponent), so they need methods: their struct types are
// GENERATED Go source (tools/props/c17.py writes retry_types.go next to a copy of this directory and builds that; in
// this directory the constructor table stays empty).  A generated type embeds definition.LazyInitComponent and
// RetryGate, carries the fields of its bindings under the names K<i>Prefix / K<i>Value / K<i>Prop (a key binding) or
// K<i>Value (a literal / template binding), optionally a gate field, and has a Naming() of its own.
//
// One group = one App:  Run (the lazy components are only registered) ; for every component GetComponentByName - it is
// populated and then fails at a later stage, as its gate says:
//
//	init | aps   RetryGate.Init / AfterPropertiesSet returns an error on its first call
//	validate     a gate field value:"${rgate.n},validate=min=100" with rgate.n: 1 configured at first
//	dep          a gate field wire:"${rgate.dep}" naming a component that does not exist at first
//	required     no gate: a required binding of the component has no configured value at first
//
// then Configure.Set for every (key, value) of the group's sets (the corrected configuration: new values for the
// bindings' keys, rgate.n = 500, rgate.dep = the name of the RetryDep that was registered all along) ; then
// GetComponentByName again for every component, which must now succeed; the fields are observed after that second
// creation and Configure.Get(key) is read at the end.
package main

import (
	"errors"
	"fmt"
	"reflect"

	"github.com/go-kid/ioc/app"
	"github.com/go-kid/ioc/configure/loader"

	"verifharness/hx"
)

// retryCtors: generated type name -> constructor (filled by the init functions of the generated retry_types.go)
var retryCtors = map[string]func() any{}

type RetryGate struct {
	FailInit  int // Init fails on its first FailInit calls
	FailAPS   int
	InitCalls int
	APSCalls  int
}

func (g *RetryGate) AfterPropertiesSet() error {
	g.APSCalls++
	if g.APSCalls <= g.FailAPS {
		return errors.New("retry gate: AfterPropertiesSet refuses the configuration of the first attempt")
	}
	return nil
}

func (g *RetryGate) Init() error {
	g.InitCalls++
	if g.InitCalls <= g.FailInit {
		return errors.New("retry gate: Init refuses the configuration of the first attempt")
	}
	return nil
}

type retryGated interface{ WxGate() *RetryGate }

func (g *RetryGate) WxGate() *RetryGate { return g }

// RetryDep: the component a "dep" gate field ends up pointing at
type RetryDep struct{ X int }

func (d *RetryDep) Naming() string { return "retrydep" }

type RetrySet struct {
	Key string `json:"key"`
	Val any    `json:"val"` // <cval>
}

type RetrySpec struct {
	Ctors []string   `json:"ctors"` // per component of the (only) start: generated type
	Names []string   `json:"names"` // ... the name it registers under
	Gates []string   `json:"gates"` // ... init | aps | validate | dep | required
	Sets  []RetrySet `json:"sets"`
}

func runRetryGroup(g Group) GroupOut {
	res := GroupOut{GID: g.GID}
	st := &g.Starts[0]
	n := 0
	for ci := range st.Comps {
		n += len(st.Comps[ci].Cases)
	}
	outs := make([]Out, n)
	k := 0
	for ci := range st.Comps {
		for _, c := range st.Comps[ci].Cases {
			outs[k].ID = c.ID
			k++
		}
	}
	all := func(bad map[string]any) GroupOut {
		k := 0
		for ci := range st.Comps {
			for _, c := range st.Comps[ci].Cases {
				switch c.Kind {
				case "lit", "tpl":
					outs[k].Value = bad
				default:
					outs[k].Prefix, outs[k].Value, outs[k].Prop = bad, bad, bad
				}
				if outs[k].Get == nil && c.Kind != "lit" {
					outs[k].Get = map[string]any{"x": "not read"}
				}
				k++
			}
		}
		res.Outs = outs
		return res
	}
	harness := func(msg string) GroupOut { return all(map[string]any{"o": "panic", "d": "harness: " + msg}) }
	r := g.Retry
	if len(g.Starts) != 1 || len(r.Ctors) != len(st.Comps) || len(r.Gates) != len(st.Comps) || len(r.Names) != len(st.Comps) {
		return harness("malformed retry group")
	}
	comps := []any{&RetryDep{X: 7}}
	holders := make([]reflect.Value, len(st.Comps))
	for ci := range st.Comps {
		ctor, ok := retryCtors[r.Ctors[ci]]
		if !ok {
			return harness("no generated type " + r.Ctors[ci] + " in this binary")
		}
		in := ctor()
		gate := in.(retryGated).WxGate()
		switch r.Gates[ci] {
		case "init":
			gate.FailInit = 1
		case "aps":
			gate.FailAPS = 1
		}
		holders[ci] = reflect.ValueOf(in)
		comps = append(comps, in)
	}
	a := app.NewApp()
	var runErr error
	if p := hx.Guard(func() {
		runErr = a.Run(app.SetConfigLoader(loader.NewRawLoader([]byte(st.Yaml))), app.SetComponents(comps...))
	}); p != "" {
		return all(map[string]any{"o": "panic", "d": "start: " + clip(p)})
	}
	if runErr != nil {
		return all(map[string]any{"o": "err", "d": "start: " + clip(runErr.Error())})
	}
	var firstErr []string
	// first request: populated, then refused at a later stage
	for ci := range st.Comps {
		var err error
		p := hx.Guard(func() { _, err = a.GetComponentByName(r.Names[ci]) })
		if p != "" {
			return all(map[string]any{"o": "panic", "d": "first request: " + clip(p)})
		}
		if err == nil {
			return harness(fmt.Sprintf("the first creation of component %d (gate %s) did not fail", ci, r.Gates[ci]))
		}
		firstErr = append(firstErr, clip(err.Error()))
	}
	// the configuration is corrected
	for _, s := range r.Sets {
		s := s
		if p := hx.Guard(func() { a.Set(s.Key, anyOf(s.Val)) }); p != "" {
			return all(map[string]any{"o": "panic", "d": "Configure.Set: " + clip(p)})
		}
	}
	// second request: per component, the outcome of its creation is the outcome of its bindings
	k = 0
	for ci := range st.Comps {
		var err error
		p := hx.Guard(func() { _, err = a.GetComponentByName(r.Names[ci]) })
		var bad map[string]any
		if p != "" {
			bad = map[string]any{"o": "panic", "d": "second request: " + clip(p)}
		} else if err != nil {
			bad = map[string]any{"o": "err", "d": "second request: " + clip(err.Error())}
		}
		for i := range st.Comps[ci].Cases {
			c := &st.Comps[ci].Cases[i]
			o := &outs[k]
			k++
			routes := []string{"prefix", "value", "prop"}
			if c.Kind == "lit" || c.Kind == "tpl" {
				routes = []string{"value"}
			}
			for _, route := range routes {
				if bad != nil {
					setRoute(o, route, bad)
					continue
				}
				name := fmt.Sprintf("K%d%s", i, map[string]string{"prefix": "Prefix", "value": "Value", "prop": "Prop"}[route])
				var f any
				q := hx.Guard(func() {
					fv := holders[ci].Elem().FieldByName(name)
					if !fv.IsValid() {
						panic("harness: generated type has no field " + name)
					}
					f = canonField(fv, &c.Type)
				})
				if q != "" {
					setRoute(o, route, map[string]any{"o": "panic", "d": "observe: " + clip(q)})
				} else {
					setRoute(o, route, map[string]any{"o": "ok", "f": f})
				}
			}
			o.FirstErr = firstErr[ci]
			if c.Kind != "lit" {
				key := c.Key
				if q := hx.Guard(func() { o.Get = canonAny(a.Get(key)) }); q != "" {
					o.Get = map[string]any{"x": "get failed: " + clip(q)}
				}
			}
		}
	}
	res.Outs = outs
	return res
}
