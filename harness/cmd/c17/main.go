// Driver for C17: binds one configured value into one field type through the REAL container, three
// ways (prefix:"key", value:"${key}", prop:"key"), plus literal value tags, and reports the bound
// field rendered canonically (type-tagged), together with what Configure.Get(key) returned.
//
// stdin : {"cases":[{id, kind:"key"|"lit"|"tpl", yaml, key, body, pfx, sfx, args, text, type:<T>, pre:<fval>|null}],
//
//	 "groups":[{gid, starts:[{yaml, comps:[{cases:[<case>...]}]}]}]}
//	body = key or key:default (the placeholder is ${body}, the prop tag is body); kind "tpl" runs the value route
//	only, with the tag pfx${body}sfx; args = ",required=false" and/or ",mapper=<tag key>" (appended to every tag).
//	A group is run in a process of its own: its starts one after the other, every start ONE App.Run over all
//	its components, every component a struct with three fields per key case (prefix, value, prop - in that
//	order) or one field per lit / tpl case.  Cases outside groups: one App.Run per route, 250 cases per process.
//	pre = the value the bound field holds BEFORE App.Run (a constructor default); with pre set, every route
//	runs on a component whose field was pre-filled, and one more run ("fresh": the prefix route, for a literal
//	the value route) binds the same thing into a zero component
//	A group with "mutate":true checks that bound values share nothing with the configuration nor with each other:
//	a post-processor of the driver (PostProcessAfterInitialization) visits the fields of every component of the
//	group as soon as the component is initialised, in declaration order, and for each field FIRST takes the
//	observation the case reports and THEN changes the bound value in place like a component that owns it may do
//	(maps: every entry overwritten, a key added, a key deleted; slices: every element overwritten, the order
//	reversed; through pointers, struct fields, typed elements; with "deep":true also into the maps / lists held
//	in interface-typed positions, and `any` fields themselves).  So every field is observed after all fields
//	before it - of the same component, of components created earlier, of earlier starts - were scribbled over.
//	After the start Configure.Get(key) is read once more on the SAME App ("get2").
//	A group with "retry" populates the points of lazy components twice with Configure.Set in between: see retry.go.
//	<T> = {"k":"string"|"bool"|"int"|"uint"|"float"|"any"|"ptr"|"slice"|"map"|"struct",
//	       "bits":8|16|32|64|0 (0 = int/uint), "e":<T>,
//	       "f":[{"go":"Name","tags":[{"k":"yaml","v":"tag text"}...],"name":"name to render the field under","t":<T>}]}
//
// stdout: @@JSON {"outs":[{id, get:<cval>|null, get2:<cval>|null, prefix:<obs>, value:<obs>, prop:<obs>, fresh:<obs>, pre:<fval> read back}],
//
//	        "gouts":[{gid, outs:[... one per case of the group, in order ...]}]}
//	<obs>  = {"o":"ok","f":<fval>} | {"o":"err","d":detail} | {"o":"panic","d":detail} | {"o":"hang"} | null (route not run)
//	<fval> = {"S":hex} {"B":bool} {"I":"dec"} {"F":"shortest float text"} {"N":1} {"P":fval} {"L":[fval]}
//	         {"M":[[hexkey,fval]...]} (keys sorted) {"T":[[matchname-hex,fval]...]} {"A":<cval>}
//	<cval> = {"n":1} {"b":bool} {"i":"dec"} {"f":"text"} {"s":hex} {"l":[..]} {"m":[[hexkey,cval]..]} {"x":"Go type"}
//
// Every struct type is built with reflect.StructOf (types built at run time pass through the container).
// The parent process hands chunks of cases to child processes (re-exec with VERIF_C17_CHILD=1) under
// a wall-clock limit, so that a hang or a fatal error is an outcome of one case, not of the run.
package main

import (
	"bytes"
	"context"
	"encoding/hex"
	"encoding/json"
	"fmt"
	"os"
	"os/exec"
	"reflect"
	"runtime"
	"sort"
	"strconv"
	"strings"
	"sync"
	"time"

	"github.com/go-kid/ioc/app"
	"github.com/go-kid/ioc/configure/loader"

	"verifharness/hx"
)

type TypeSpec struct {
	K    string      `json:"k"`
	Bits int         `json:"bits"`
	E    *TypeSpec   `json:"e"`
	F    []FieldSpec `json:"f"`
}

type TagSpec struct {
	K string `json:"k"`
	V string `json:"v"`
}

type FieldSpec struct {
	Go   string    `json:"go"`
	Tags []TagSpec `json:"tags"`
	Name string    `json:"name"` // observations render the field under this name (the generator's reading of the match name)
	Anon bool      `json:"anon"` // an embedded (anonymous) struct field
	T    TypeSpec  `json:"t"`
}

type Case struct {
	ID   int      `json:"id"`
	Kind string   `json:"kind"`
	Yaml string   `json:"yaml"`
	Key  string   `json:"key"`
	Body string   `json:"body"` // key or key:default ("" = key)
	Pfx  string   `json:"pfx"`
	Sfx  string   `json:"sfx"`
	Args string   `json:"args"` // "", ",required=false", ",mapper=json", ...
	Text string   `json:"text"` // literal: the whole tag text
	Type TypeSpec `json:"type"`
	Pre  any      `json:"pre"` // <fval> to put into the field before Run (nil = zero component)
}

type Out struct {
	ID       int    `json:"id"`
	Get      any    `json:"get"`
	Prefix   any    `json:"prefix"`
	Value    any    `json:"value"`
	Prop     any    `json:"prop"`
	Fresh    any    `json:"fresh"`               // pre-filled cases: the same binding into a zero component
	Pre      any    `json:"pre"`                 // pre-filled cases: the pre-filled field as rendered before Run
	FirstErr string `json:"first_err,omitempty"` // retry groups: what refused the first creation of the component
	Get2     any    `json:"get2"`                // mutating groups: Configure.Get(key) on the App of the bindings, after the holders changed their values
}

type Comp struct {
	Cases []Case `json:"cases"`
}

type Start struct {
	Yaml  string `json:"yaml"`
	Comps []Comp `json:"comps"`
}

type Group struct {
	GID    int     `json:"gid"`
	Starts []Start `json:"starts"`
	Mutate bool    `json:"mutate"` // every holder changes its bound maps / slices in place once it is initialised
	Deep   bool    `json:"deep"`   // ... also the maps / lists held in interface-typed positions
	// one start whose components are lazy, requested twice with Configure.Set in between (retry.go)
	Retry *RetrySpec `json:"retry"`
}

// mutator: a post-processor of the driver; hook sees every component right after its initialisation
type mutator struct {
	hook func(component any)
}

func (m *mutator) PostProcessBeforeInitialization(component any, componentName string) (any, error) {
	return component, nil
}

func (m *mutator) PostProcessAfterInitialization(component any, componentName string) (any, error) {
	m.hook(component)
	return component, nil
}

// junk: a value of type t that no generated configuration holds
func junk(rt reflect.Type, t *TypeSpec) reflect.Value {
	v := reflect.New(rt).Elem()
	switch t.K {
	case "string":
		v.SetString("\x7fscribbled")
	case "bool":
		v.SetBool(true)
	case "int":
		v.SetInt(97)
	case "uint":
		v.SetUint(97)
	case "float":
		v.SetFloat(97.5)
	case "any":
		v.Set(reflect.ValueOf("\x7fscribbled-any"))
	case "ptr":
		p := reflect.New(rt.Elem())
		p.Elem().Set(junk(rt.Elem(), t.E))
		v.Set(p)
	case "slice":
		v.Set(reflect.Append(reflect.MakeSlice(rt, 0, 1), junk(rt.Elem(), t.E)))
	case "map":
		m := reflect.MakeMap(rt)
		m.SetMapIndex(reflect.ValueOf("scribbled"), junk(rt.Elem(), t.E))
		v.Set(m)
	case "struct":
		for i := range t.F {
			v.Field(i).Set(junk(rt.Field(i).Type, &t.F[i].T))
		}
	}
	return v
}

// scribbleDyn changes a dynamically typed configuration value in place (deep mode): maps and lists at any depth
func scribbleDyn(x any) {
	switch c := x.(type) {
	case map[string]any:
		keys := make([]string, 0, len(c))
		for k := range c {
			keys = append(keys, k)
		}
		sort.Strings(keys)
		for _, k := range keys {
			scribbleDyn(c[k])
		}
		if len(keys) > 0 {
			c[keys[0]] = "\x7fscribbled-any"
		}
		c["zz_added"] = "\x7fadded"
		if len(keys) > 1 {
			delete(c, keys[len(keys)-1])
		}
	case []any:
		for i := range c {
			scribbleDyn(c[i])
		}
		for i, j := 0, len(c)-1; i < j; i, j = i+1, j-1 {
			c[i], c[j] = c[j], c[i]
		}
		if len(c) > 0 {
			c[0] = "\x7fscribbled-any"
		}
	}
}

// scribbleField changes the value bound to a field in place, the way a component that owns the value may: whatever is
// reachable through pointers, struct fields, map values and slice elements of DECLARED container types; with deep also
// through interface-typed positions.  Scalars are left alone (assigning to one's own field shares nothing).
func scribbleField(v reflect.Value, t *TypeSpec, deep bool) {
	switch t.K {
	case "ptr":
		if !v.IsNil() {
			scribbleField(v.Elem(), t.E, deep)
		}
	case "struct":
		for i := range t.F {
			scribbleField(v.Field(i), &t.F[i].T, deep)
		}
	case "any":
		if deep && !v.IsNil() {
			scribbleDyn(v.Interface())
		}
	case "slice":
		if v.IsNil() {
			return
		}
		n := v.Len()
		for i := 0; i < n; i++ {
			scribbleField(v.Index(i), t.E, deep)
		}
		tmp := reflect.New(v.Type().Elem()).Elem()
		for i, j := 0, n-1; i < j; i, j = i+1, j-1 {
			tmp.Set(v.Index(i))
			v.Index(i).Set(v.Index(j))
			v.Index(j).Set(tmp)
		}
		if n > 0 {
			v.Index(0).Set(junk(v.Type().Elem(), t.E))
		}
	case "map":
		if v.IsNil() {
			return
		}
		keys := make([]string, 0, v.Len())
		for _, k := range v.MapKeys() {
			keys = append(keys, k.String())
		}
		sort.Strings(keys)
		for _, k := range keys {
			kv := reflect.ValueOf(k)
			switch t.E.K {
			case "ptr", "map", "slice": // references: what they point to is changed in place
				scribbleField(v.MapIndex(kv), t.E, deep)
			case "any":
				if deep {
					scribbleDyn(v.MapIndex(kv).Interface())
				}
			}
		}
		if len(keys) > 0 {
			v.SetMapIndex(reflect.ValueOf(keys[0]), junk(v.Type().Elem(), t.E))
		}
		v.SetMapIndex(reflect.ValueOf("zz_added"), junk(v.Type().Elem(), t.E))
		if len(keys) > 1 {
			v.SetMapIndex(reflect.ValueOf(keys[len(keys)-1]), reflect.Value{})
		}
	}
}

type GroupOut struct {
	GID  int   `json:"gid"`
	Outs []Out `json:"outs"`
}

type Input struct {
	Cases  []Case  `json:"cases"`
	Groups []Group `json:"groups"`
}

func goType(t *TypeSpec) reflect.Type {
	switch t.K {
	case "string":
		return reflect.TypeOf("")
	case "bool":
		return reflect.TypeOf(false)
	case "int":
		switch t.Bits {
		case 8:
			return reflect.TypeOf(int8(0))
		case 16:
			return reflect.TypeOf(int16(0))
		case 32:
			return reflect.TypeOf(int32(0))
		case 64:
			return reflect.TypeOf(int64(0))
		}
		return reflect.TypeOf(int(0))
	case "uint":
		switch t.Bits {
		case 8:
			return reflect.TypeOf(uint8(0))
		case 16:
			return reflect.TypeOf(uint16(0))
		case 32:
			return reflect.TypeOf(uint32(0))
		case 64:
			return reflect.TypeOf(uint64(0))
		}
		return reflect.TypeOf(uint(0))
	case "float":
		if t.Bits == 32 {
			return reflect.TypeOf(float32(0))
		}
		return reflect.TypeOf(float64(0))
	case "any":
		var a any
		return reflect.TypeOf(&a).Elem()
	case "ptr":
		return reflect.PtrTo(goType(t.E))
	case "slice":
		return reflect.SliceOf(goType(t.E))
	case "map":
		return reflect.MapOf(reflect.TypeOf(""), goType(t.E))
	case "struct":
		fs := make([]reflect.StructField, 0, len(t.F))
		for _, f := range t.F {
			sf := reflect.StructField{Name: f.Go, Type: goType(&f.T), Anonymous: f.Anon}
			parts := make([]string, 0, len(f.Tags))
			for _, tg := range f.Tags {
				parts = append(parts, fmt.Sprintf(`%s:%q`, tg.K, tg.V))
			}
			sf.Tag = reflect.StructTag(strings.Join(parts, " "))
			fs = append(fs, sf)
		}
		return reflect.StructOf(fs)
	}
	panic("bad type kind " + t.K)
}

func hexs(s string) string { return hex.EncodeToString([]byte(s)) }

// cval rendering of a dynamically typed configuration value
func canonAny(v any) any {
	if v == nil {
		return map[string]any{"n": 1}
	}
	switch t := v.(type) {
	case bool:
		return map[string]any{"b": t}
	case string:
		return map[string]any{"s": hexs(t)}
	case map[string]any:
		keys := make([]string, 0, len(t))
		for k := range t {
			keys = append(keys, k)
		}
		sort.Strings(keys)
		kids := make([]any, 0, len(keys))
		for _, k := range keys {
			kids = append(kids, []any{hexs(k), canonAny(t[k])})
		}
		return map[string]any{"m": kids}
	case []any:
		items := make([]any, 0, len(t))
		for _, x := range t {
			items = append(items, canonAny(x))
		}
		return map[string]any{"l": items}
	case int:
		return map[string]any{"i": strconv.FormatInt(int64(t), 10)}
	case int64:
		return map[string]any{"i": strconv.FormatInt(t, 10)}
	case uint64:
		return map[string]any{"i": strconv.FormatUint(t, 10)}
	case float64:
		return map[string]any{"f": strconv.FormatFloat(t, 'g', -1, 64)}
	}
	return map[string]any{"x": fmt.Sprintf("%T", v)}
}

// fval rendering of a field by its static type
func canonField(v reflect.Value, t *TypeSpec) any {
	switch t.K {
	case "string":
		return map[string]any{"S": hexs(v.String())}
	case "bool":
		return map[string]any{"B": v.Bool()}
	case "int":
		return map[string]any{"I": strconv.FormatInt(v.Int(), 10)}
	case "uint":
		return map[string]any{"I": strconv.FormatUint(v.Uint(), 10)}
	case "float":
		bits := 64
		if t.Bits == 32 {
			bits = 32
		}
		return map[string]any{"F": strconv.FormatFloat(v.Float(), 'g', -1, bits)}
	case "any":
		if v.IsNil() {
			return map[string]any{"N": 1}
		}
		return map[string]any{"A": canonAny(v.Interface())}
	case "ptr":
		if v.IsNil() {
			return map[string]any{"N": 1}
		}
		return map[string]any{"P": canonField(v.Elem(), t.E)}
	case "slice":
		if v.IsNil() {
			return map[string]any{"N": 1}
		}
		items := make([]any, 0, v.Len())
		for i := 0; i < v.Len(); i++ {
			items = append(items, canonField(v.Index(i), t.E))
		}
		return map[string]any{"L": items}
	case "map":
		if v.IsNil() {
			return map[string]any{"N": 1}
		}
		keys := make([]string, 0, v.Len())
		for _, k := range v.MapKeys() {
			keys = append(keys, k.String())
		}
		sort.Strings(keys)
		kids := make([]any, 0, len(keys))
		for _, k := range keys {
			kids = append(kids, []any{hexs(k), canonField(v.MapIndex(reflect.ValueOf(k)), t.E)})
		}
		return map[string]any{"M": kids}
	case "struct":
		kids := make([]any, 0, len(t.F))
		for i := range t.F {
			name := t.F[i].Name
			if name == "" {
				name = t.F[i].Go
			}
			kids = append(kids, []any{hexs(name), canonField(v.Field(i), &t.F[i].T)})
		}
		return map[string]any{"T": kids}
	}
	panic("bad type kind " + t.K)
}

// anyOf builds the dynamically typed value a <cval> describes (ints as int, floats as float64)
func anyOf(spec any) any {
	m, ok := spec.(map[string]any)
	if !ok {
		panic("bad cval spec")
	}
	if _, ok := m["n"]; ok {
		return nil
	}
	if b, ok := m["b"]; ok {
		return b.(bool)
	}
	if i, ok := m["i"]; ok {
		n, err := strconv.ParseInt(i.(string), 10, 64)
		if err != nil {
			panic(err)
		}
		return int(n)
	}
	if f, ok := m["f"]; ok {
		x, err := strconv.ParseFloat(f.(string), 64)
		if err != nil {
			panic(err)
		}
		return x
	}
	if h, ok := m["s"]; ok {
		b, err := hex.DecodeString(h.(string))
		if err != nil {
			panic(err)
		}
		return string(b)
	}
	if l, ok := m["l"]; ok {
		out := make([]any, 0)
		for _, x := range l.([]any) {
			out = append(out, anyOf(x))
		}
		return out
	}
	if kv, ok := m["m"]; ok {
		out := map[string]any{}
		for _, e := range kv.([]any) {
			pair := e.([]any)
			k, err := hex.DecodeString(pair[0].(string))
			if err != nil {
				panic(err)
			}
			out[string(k)] = anyOf(pair[1])
		}
		return out
	}
	panic("bad cval spec")
}

// fill stores the value an <fval> describes into v (of the type t describes): the constructor default of a field
func fill(v reflect.Value, t *TypeSpec, spec any) {
	m, ok := spec.(map[string]any)
	if !ok {
		panic("bad fval spec")
	}
	unhex := func(x any) string {
		b, err := hex.DecodeString(x.(string))
		if err != nil {
			panic(err)
		}
		return string(b)
	}
	if _, isNil := m["N"]; isNil {
		v.Set(reflect.Zero(v.Type()))
		return
	}
	switch t.K {
	case "string":
		v.SetString(unhex(m["S"]))
	case "bool":
		v.SetBool(m["B"].(bool))
	case "int":
		n, err := strconv.ParseInt(m["I"].(string), 10, 64)
		if err != nil {
			panic(err)
		}
		v.SetInt(n)
	case "uint":
		n, err := strconv.ParseUint(m["I"].(string), 10, 64)
		if err != nil {
			panic(err)
		}
		v.SetUint(n)
	case "float":
		x, err := strconv.ParseFloat(m["F"].(string), 64)
		if err != nil {
			panic(err)
		}
		v.SetFloat(x)
	case "any":
		a := anyOf(m["A"])
		if a == nil {
			v.Set(reflect.Zero(v.Type()))
		} else {
			v.Set(reflect.ValueOf(a))
		}
	case "ptr":
		p := reflect.New(v.Type().Elem())
		fill(p.Elem(), t.E, m["P"])
		v.Set(p)
	case "slice":
		items := m["L"].([]any)
		sl := reflect.MakeSlice(v.Type(), len(items), len(items))
		for i, x := range items {
			fill(sl.Index(i), t.E, x)
		}
		v.Set(sl)
	case "map":
		mp := reflect.MakeMap(v.Type())
		for _, e := range m["M"].([]any) {
			pair := e.([]any)
			ev := reflect.New(v.Type().Elem()).Elem()
			fill(ev, t.E, pair[1])
			mp.SetMapIndex(reflect.ValueOf(unhex(pair[0])), ev)
		}
		v.Set(mp)
	case "struct":
		kids := m["T"].([]any)
		for i := range t.F {
			fill(v.Field(i), &t.F[i].T, kids[i].([]any)[1])
		}
	default:
		panic("bad type kind " + t.K)
	}
}

func clip(s string) string {
	if len(s) > 240 {
		return s[len(s)-240:]
	}
	return s
}

// one start of the real App with one component holding one tagged field
// (pre != nil: the field holds that value when the component is registered)
func runRoute(yaml string, ft reflect.Type, spec *TypeSpec, tag string, pre any) any {
	var holder reflect.Value
	var runErr error
	p := hx.Guard(func() {
		st := reflect.StructOf([]reflect.StructField{{Name: "F", Type: ft, Tag: reflect.StructTag(tag)}})
		holder = reflect.New(st)
		if pre != nil {
			fill(holder.Elem().Field(0), spec, pre)
		}
		a := app.NewApp()
		runErr = a.Run(app.SetConfigLoader(loader.NewRawLoader([]byte(yaml))), app.SetComponents(holder.Interface()))
	})
	if p != "" {
		return map[string]any{"o": "panic", "d": clip(p)}
	}
	if runErr != nil {
		return map[string]any{"o": "err", "d": clip(runErr.Error())}
	}
	var f any
	p = hx.Guard(func() { f = canonField(holder.Elem().Field(0), spec) })
	if p != "" {
		return map[string]any{"o": "panic", "d": "observe: " + clip(p)}
	}
	return map[string]any{"o": "ok", "f": f}
}

func structTag(name, text string) string {
	return fmt.Sprintf(`%s:%q`, name, text)
}

func runCase(c Case) Out {
	out := Out{ID: c.ID}
	var ft reflect.Type
	if p := hx.Guard(func() { ft = goType(&c.Type) }); p != "" {
		bad := map[string]any{"o": "panic", "d": "harness: cannot build the field type: " + clip(p)}
		return Out{ID: c.ID, Get: map[string]any{"x": "bad type"}, Prefix: bad, Value: bad, Prop: bad}
	}
	if c.Pre != nil {
		// the harness's own reading of the pre-filled field (what the case says the field held before Run)
		p := hx.Guard(func() {
			v := reflect.New(ft).Elem()
			fill(v, &c.Type, c.Pre)
			out.Pre = canonField(v, &c.Type)
		})
		if p != "" {
			bad := map[string]any{"o": "panic", "d": "harness: cannot pre-fill the field: " + clip(p)}
			return Out{ID: c.ID, Get: map[string]any{"x": "bad prefill"}, Prefix: bad, Value: bad, Prop: bad, Fresh: bad}
		}
	}
	if c.Kind == "lit" {
		out.Value = runRoute(c.Yaml, ft, &c.Type, structTag("value", c.Text), c.Pre)
		if c.Pre != nil {
			out.Fresh = runRoute(c.Yaml, ft, &c.Type, structTag("value", c.Text), nil)
		}
		return out
	}
	body := c.Body
	if body == "" {
		body = c.Key
	}
	p := hx.Guard(func() {
		a := app.NewApp()
		if err := a.Run(app.SetConfigLoader(loader.NewRawLoader([]byte(c.Yaml)))); err != nil {
			panic(err)
		}
		v := a.Get(c.Key)
		out.Get = canonAny(v)
	})
	if p != "" {
		out.Get = map[string]any{"x": "get failed: " + clip(p)}
	}
	if c.Kind == "tpl" {
		out.Value = runRoute(c.Yaml, ft, &c.Type, structTag("value", c.Pfx+"${"+body+"}"+c.Sfx+c.Args), c.Pre)
		return out
	}
	out.Prefix = runRoute(c.Yaml, ft, &c.Type, structTag("prefix", c.Key+c.Args), c.Pre)
	out.Value = runRoute(c.Yaml, ft, &c.Type, structTag("value", "${"+body+"}"+c.Args), c.Pre)
	out.Prop = runRoute(c.Yaml, ft, &c.Type, structTag("prop", body+c.Args), c.Pre)
	if c.Pre != nil {
		out.Fresh = runRoute(c.Yaml, ft, &c.Type, structTag("prefix", c.Key+c.Args), nil)
	}
	return out
}

// slot = where one field of a group's component reports to
type slot struct {
	out   *Out
	route string // "prefix" | "value" | "prop"
	spec  *TypeSpec
	field int
}

func setRoute(o *Out, route string, v any) {
	switch route {
	case "prefix":
		o.Prefix = v
	case "value":
		o.Value = v
	case "prop":
		o.Prop = v
	}
}

// one group: its starts one after the other in THIS process; every start is one App.Run over all its components
func runGroup(g Group) GroupOut {
	if g.Retry != nil {
		return runRetryGroup(g)
	}
	res := GroupOut{GID: g.GID}
	for si := range g.Starts {
		st := &g.Starts[si]
		n := 0
		for ci := range st.Comps {
			n += len(st.Comps[ci].Cases)
		}
		outs := make([]Out, n)
		// what Configure.Get returns for every key of the start
		p := hx.Guard(func() {
			a := app.NewApp()
			if err := a.Run(app.SetConfigLoader(loader.NewRawLoader([]byte(st.Yaml)))); err != nil {
				panic(err)
			}
			k := 0
			for ci := range st.Comps {
				for _, c := range st.Comps[ci].Cases {
					outs[k].ID = c.ID
					if c.Kind != "lit" {
						outs[k].Get = canonAny(a.Get(c.Key))
					}
					k++
				}
			}
		})
		if p != "" {
			k := 0
			for ci := range st.Comps {
				for _, c := range st.Comps[ci].Cases {
					outs[k].ID = c.ID
					outs[k].Get = map[string]any{"x": "get failed: " + clip(p)}
					k++
				}
			}
		}
		var slots []slot
		var holders []reflect.Value
		var comps []any
		var runErr error
		var observed []bool         // mutating groups: the slot was observed by the post-processor
		byHolder := map[any][]int{} // component -> its slots
		observeSlot := func(j int) {
			s := slots[j]
			var f any
			q := hx.Guard(func() { f = canonField(holders[j].Elem().Field(s.field), s.spec) })
			if q != "" {
				setRoute(s.out, s.route, map[string]any{"o": "panic", "d": "observe: " + clip(q)})
			} else {
				setRoute(s.out, s.route, map[string]any{"o": "ok", "f": f})
			}
		}
		var a *app.App
		p = hx.Guard(func() {
			k := 0
			for ci := range st.Comps {
				cases := st.Comps[ci].Cases
				var fields []reflect.StructField
				var cslots []slot
				add := func(o *Out, c *Case, route, tag string) {
					name := fmt.Sprintf("C%dK%d%s", ci, len(fields), strings.ToUpper(route[:1])+route[1:])
					fields = append(fields, reflect.StructField{Name: name, Type: goType(&c.Type), Tag: reflect.StructTag(tag)})
					cslots = append(cslots, slot{out: o, route: route, spec: &c.Type, field: len(fields) - 1})
				}
				for i := range cases {
					c := &cases[i]
					o := &outs[k]
					k++
					body := c.Body
					if body == "" {
						body = c.Key
					}
					switch c.Kind {
					case "lit":
						add(o, c, "value", structTag("value", c.Text))
					case "tpl":
						add(o, c, "value", structTag("value", c.Pfx+"${"+body+"}"+c.Sfx+c.Args))
					default:
						add(o, c, "prefix", structTag("prefix", c.Key+c.Args))
						add(o, c, "value", structTag("value", "${"+body+"}"+c.Args))
						add(o, c, "prop", structTag("prop", body+c.Args))
					}
				}
				holder := reflect.New(reflect.StructOf(fields))
				for j := range cslots {
					cslots[j].field = j
				}
				base := len(slots)
				slots = append(slots, cslots...)
				for j := base; j < len(slots); j++ {
					holders = append(holders, holder)
				}
				comps = append(comps, holder.Interface())
				for j := base; j < len(slots); j++ {
					byHolder[holder.Interface()] = append(byHolder[holder.Interface()], j)
				}
			}
			observed = make([]bool, len(slots))
			if g.Mutate {
				comps = append(comps, &mutator{hook: func(component any) {
					for _, j := range byHolder[component] {
						if observed[j] {
							continue
						}
						observed[j] = true
						observeSlot(j)
						s := slots[j]
						if q := hx.Guard(func() { scribbleField(holders[j].Elem().Field(s.field), s.spec, g.Deep) }); q != "" {
							setRoute(s.out, s.route, map[string]any{"o": "panic", "d": "harness: scribble: " + clip(q)})
						}
					}
				}})
			}
			a = app.NewApp()
			runErr = a.Run(app.SetConfigLoader(loader.NewRawLoader([]byte(st.Yaml))), app.SetComponents(comps...))
		})
		if p != "" || runErr != nil {
			var bad map[string]any
			if p != "" {
				bad = map[string]any{"o": "panic", "d": clip(p)}
			} else {
				bad = map[string]any{"o": "err", "d": clip(runErr.Error())}
			}
			if len(slots) == 0 { // the component types could not be built
				for k := range outs {
					outs[k].Prefix, outs[k].Value, outs[k].Prop = bad, bad, bad
				}
			}
			for _, s := range slots {
				setRoute(s.out, s.route, bad)
			}
		} else {
			for j := range slots {
				if !observed[j] {
					observeSlot(j)
				}
			}
			if g.Mutate {
				// the configuration itself, read again where the bindings happened
				k := 0
				for ci := range st.Comps {
					for _, c := range st.Comps[ci].Cases {
						if c.Kind != "lit" {
							key := c.Key
							if q := hx.Guard(func() { outs[k].Get2 = canonAny(a.Get(key)) }); q != "" {
								outs[k].Get2 = map[string]any{"x": "get failed: " + clip(q)}
							}
						}
						k++
					}
				}
			}
		}
		res.Outs = append(res.Outs, outs...)
	}
	return res
}

func groupSize(g *Group) int {
	n := 0
	for si := range g.Starts {
		for ci := range g.Starts[si].Comps {
			n += len(g.Starts[si].Comps[ci].Cases)
		}
	}
	return n
}

func runChildInput(in Input, limit time.Duration) (outs []Out, gouts []GroupOut, ok bool) {
	ctx, cancel := context.WithTimeout(context.Background(), limit)
	defer cancel()
	cmd := exec.CommandContext(ctx, os.Args[0])
	cmd.Env = append(os.Environ(), "VERIF_C17_CHILD=1")
	data, _ := json.Marshal(in)
	cmd.Stdin = bytes.NewReader(data)
	raw, _ := cmd.CombinedOutput()
	for _, ln := range strings.Split(string(raw), "\n") {
		if strings.HasPrefix(ln, "@@JSON ") {
			var o struct {
				Outs  []Out      `json:"outs"`
				Gouts []GroupOut `json:"gouts"`
			}
			if json.Unmarshal([]byte(ln[7:]), &o) == nil && len(o.Outs) == len(in.Cases) && len(o.Gouts) == len(in.Groups) {
				return o.Outs, o.Gouts, true
			}
		}
	}
	return nil, nil, false
}

func runChild(cases []Case, limit time.Duration) ([]Out, bool) {
	outs, _, ok := runChildInput(Input{Cases: cases}, limit)
	return outs, ok
}

// a group in a process of its own (what it leaves behind in package-level state cannot reach another group)
func runGroupChild(g Group) GroupOut {
	_, gouts, ok := runChildInput(Input{Groups: []Group{g}}, 60*time.Second)
	if ok && len(gouts[0].Outs) == groupSize(&g) {
		return gouts[0]
	}
	h := map[string]any{"o": "hang"}
	res := GroupOut{GID: g.GID}
	for si := range g.Starts {
		for ci := range g.Starts[si].Comps {
			for _, c := range g.Starts[si].Comps[ci].Cases {
				o := Out{ID: c.ID, Get: map[string]any{"x": "hang"}}
				switch c.Kind {
				case "lit", "tpl":
					o.Value = h
				default:
					o.Prefix, o.Value, o.Prop = h, h, h
				}
				res.Outs = append(res.Outs, o)
			}
		}
	}
	return res
}

func main() {
	hx.Quiet()
	os.Args = os.Args[:1]
	var in Input
	hx.ReadInput(&in)
	if os.Getenv("VERIF_C17_CHILD") == "1" {
		outs := make([]Out, 0, len(in.Cases))
		for _, c := range in.Cases {
			outs = append(outs, runCase(c))
		}
		gouts := make([]GroupOut, 0, len(in.Groups))
		for _, g := range in.Groups {
			gouts = append(gouts, runGroup(g))
		}
		hx.WriteOutput(map[string]any{"outs": outs, "gouts": gouts})
		return
	}
	const chunk = 250
	workers := runtime.NumCPU()
	if workers > 12 {
		workers = 12
	}
	if workers < 1 {
		workers = 1
	}
	sem := make(chan struct{}, workers)
	var wg sync.WaitGroup
	nchunks := (len(in.Cases) + chunk - 1) / chunk
	parts := make([][]Out, nchunks)
	for ch := 0; ch < nchunks; ch++ {
		i := ch * chunk
		j := i + chunk
		if j > len(in.Cases) {
			j = len(in.Cases)
		}
		wg.Add(1)
		go func(ch, i, j int) {
			defer wg.Done()
			sem <- struct{}{}
			defer func() { <-sem }()
			part, ok := runChild(in.Cases[i:j], 240*time.Second)
			if ok {
				parts[ch] = part
				return
			}
			// isolate the case that kills or hangs the child
			for _, c := range in.Cases[i:j] {
				one, ok := runChild([]Case{c}, 30*time.Second)
				if ok {
					parts[ch] = append(parts[ch], one...)
				} else {
					h := map[string]any{"o": "hang"}
					o := Out{ID: c.ID, Get: map[string]any{"x": "hang"}, Prefix: h, Value: h, Prop: h}
					if c.Kind == "tpl" || c.Kind == "lit" {
						o.Prefix, o.Prop = nil, nil
					}
					if c.Pre != nil {
						o.Fresh = h
					}
					parts[ch] = append(parts[ch], o)
				}
			}
		}(ch, i, j)
	}
	gouts := make([]GroupOut, len(in.Groups))
	for gi := range in.Groups {
		wg.Add(1)
		go func(gi int) {
			defer wg.Done()
			sem <- struct{}{}
			defer func() { <-sem }()
			gouts[gi] = runGroupChild(in.Groups[gi])
		}(gi)
	}
	wg.Wait()
	outs := make([]Out, 0, len(in.Cases))
	for _, part := range parts {
		outs = append(outs, part...)
	}
	hx.WriteOutput(map[string]any{"outs": outs, "gouts": gouts, "facts": facts()})
}

// facts reads off the running code which variant of the value path the tree has: with the repair D-C17g the
// ${} callback splices a float64 in plain digits ("1000000"), without it in %v's exponent form ("1e+06").
func facts() map[string]any {
	spec := TypeSpec{K: "string"}
	part, ok := runChild([]Case{{ID: 0, Kind: "lit", Yaml: "k: 1000000.0\n", Key: "k",
		Text: "${k}", Type: spec}}, 20*time.Second)
	got := "?"
	if ok && len(part) == 1 {
		if m, isMap := part[0].Value.(map[string]any); isMap && m["o"] == "ok" {
			if f, isF := m["f"].(map[string]any); isF {
				if h, isS := f["S"].(string); isS {
					if b, err := hex.DecodeString(h); err == nil {
						got = string(b)
					}
				}
			}
		}
	}
	return map[string]any{"float_splice": got}
}
