// Driver for C17: binds one configured value into one field type through the REAL container, three
// ways (prefix:"key", value:"${key}", prop:"key"), plus literal value tags, and reports the bound
// field rendered canonically (type-tagged), together with what Configure.Get(key) returned.
//
// stdin : {"cases":[{id, kind:"key"|"lit", yaml, key, args, text, type:<T>, pre:<fval>|null}]}
//         pre = the value the bound field holds BEFORE App.Run (a constructor default); with pre set, every route
//         runs on a component whose field was pre-filled, and one more run ("fresh": the prefix route, for a literal
//         the value route) binds the same thing into a zero component
//         <T> = {"k":"string"|"bool"|"int"|"uint"|"float"|"any"|"ptr"|"slice"|"map"|"struct",
//                "bits":8|16|32|64|0 (0 = int/uint), "e":<T>, "f":[{"go":"Name","tag":"yaml name or empty","t":<T>}]}
// stdout: @@JSON {"outs":[{id, get:<cval>|null, prefix:<obs>, value:<obs>, prop:<obs>, fresh:<obs>, pre:<fval> read back}]}
//         <obs>  = {"o":"ok","f":<fval>} | {"o":"err","d":detail} | {"o":"panic","d":detail} | {"o":"hang"} | null (route not run)
//         <fval> = {"S":hex} {"B":bool} {"I":"dec"} {"F":"shortest float text"} {"N":1} {"P":fval} {"L":[fval]}
//                  {"M":[[hexkey,fval]...]} (keys sorted) {"T":[[matchname-hex,fval]...]} {"A":<cval>}
//         <cval> = {"n":1} {"b":bool} {"i":"dec"} {"f":"text"} {"s":hex} {"l":[..]} {"m":[[hexkey,cval]..]} {"x":"Go type"}
//
// Every struct type is built with reflect.StructOf (types built at run time pass through the container).
// The parent process hands chunks of cases to child processes (re-exec with VERIF_C17_CHILD=1) under
// a wall-clock limit, so that a hang or a fatal error is an outcome of one case, not of the run.
package main

import (
	"bytes"
	"context"
	"encoding/hex"
	"encoding/json"
	"fmt"
	"os"
	"os/exec"
	"reflect"
	"sort"
	"strconv"
	"strings"
	"time"

	"github.com/go-kid/ioc/app"
	"github.com/go-kid/ioc/configure/loader"

	"verifharness/hx"
)

type TypeSpec struct {
	K    string      `json:"k"`
	Bits int         `json:"bits"`
	E    *TypeSpec   `json:"e"`
	F    []FieldSpec `json:"f"`
}

type FieldSpec struct {
	Go  string   `json:"go"`
	Tag string   `json:"tag"`
	T   TypeSpec `json:"t"`
}

type Case struct {
	ID   int      `json:"id"`
	Kind string   `json:"kind"`
	Yaml string   `json:"yaml"`
	Key  string   `json:"key"`
	Args string   `json:"args"` // "" or ",required=false"
	Text string   `json:"text"` // literal: the whole tag text
	Type TypeSpec `json:"type"`
	Pre  any      `json:"pre"` // <fval> to put into the field before Run (nil = zero component)
}

type Out struct {
	ID     int `json:"id"`
	Get    any `json:"get"`
	Prefix any `json:"prefix"`
	Value  any `json:"value"`
	Prop   any `json:"prop"`
	Fresh  any `json:"fresh"` // pre-filled cases: the same binding into a zero component
	Pre    any `json:"pre"`   // pre-filled cases: the pre-filled field as rendered before Run
}

type Input struct {
	Cases []Case `json:"cases"`
}

func goType(t *TypeSpec) reflect.Type {
	switch t.K {
	case "string":
		return reflect.TypeOf("")
	case "bool":
		return reflect.TypeOf(false)
	case "int":
		switch t.Bits {
		case 8:
			return reflect.TypeOf(int8(0))
		case 16:
			return reflect.TypeOf(int16(0))
		case 32:
			return reflect.TypeOf(int32(0))
		case 64:
			return reflect.TypeOf(int64(0))
		}
		return reflect.TypeOf(int(0))
	case "uint":
		switch t.Bits {
		case 8:
			return reflect.TypeOf(uint8(0))
		case 16:
			return reflect.TypeOf(uint16(0))
		case 32:
			return reflect.TypeOf(uint32(0))
		case 64:
			return reflect.TypeOf(uint64(0))
		}
		return reflect.TypeOf(uint(0))
	case "float":
		if t.Bits == 32 {
			return reflect.TypeOf(float32(0))
		}
		return reflect.TypeOf(float64(0))
	case "any":
		var a any
		return reflect.TypeOf(&a).Elem()
	case "ptr":
		return reflect.PtrTo(goType(t.E))
	case "slice":
		return reflect.SliceOf(goType(t.E))
	case "map":
		return reflect.MapOf(reflect.TypeOf(""), goType(t.E))
	case "struct":
		fs := make([]reflect.StructField, 0, len(t.F))
		for _, f := range t.F {
			sf := reflect.StructField{Name: f.Go, Type: goType(&f.T)}
			if f.Tag != "" {
				sf.Tag = reflect.StructTag(fmt.Sprintf(`yaml:%q`, f.Tag))
			}
			fs = append(fs, sf)
		}
		return reflect.StructOf(fs)
	}
	panic("bad type kind " + t.K)
}

func hexs(s string) string { return hex.EncodeToString([]byte(s)) }

// cval rendering of a dynamically typed configuration value
func canonAny(v any) any {
	if v == nil {
		return map[string]any{"n": 1}
	}
	switch t := v.(type) {
	case bool:
		return map[string]any{"b": t}
	case string:
		return map[string]any{"s": hexs(t)}
	case map[string]any:
		keys := make([]string, 0, len(t))
		for k := range t {
			keys = append(keys, k)
		}
		sort.Strings(keys)
		kids := make([]any, 0, len(keys))
		for _, k := range keys {
			kids = append(kids, []any{hexs(k), canonAny(t[k])})
		}
		return map[string]any{"m": kids}
	case []any:
		items := make([]any, 0, len(t))
		for _, x := range t {
			items = append(items, canonAny(x))
		}
		return map[string]any{"l": items}
	case int:
		return map[string]any{"i": strconv.FormatInt(int64(t), 10)}
	case int64:
		return map[string]any{"i": strconv.FormatInt(t, 10)}
	case uint64:
		return map[string]any{"i": strconv.FormatUint(t, 10)}
	case float64:
		return map[string]any{"f": strconv.FormatFloat(t, 'g', -1, 64)}
	}
	return map[string]any{"x": fmt.Sprintf("%T", v)}
}

// fval rendering of a field by its static type
func canonField(v reflect.Value, t *TypeSpec) any {
	switch t.K {
	case "string":
		return map[string]any{"S": hexs(v.String())}
	case "bool":
		return map[string]any{"B": v.Bool()}
	case "int":
		return map[string]any{"I": strconv.FormatInt(v.Int(), 10)}
	case "uint":
		return map[string]any{"I": strconv.FormatUint(v.Uint(), 10)}
	case "float":
		bits := 64
		if t.Bits == 32 {
			bits = 32
		}
		return map[string]any{"F": strconv.FormatFloat(v.Float(), 'g', -1, bits)}
	case "any":
		if v.IsNil() {
			return map[string]any{"N": 1}
		}
		return map[string]any{"A": canonAny(v.Interface())}
	case "ptr":
		if v.IsNil() {
			return map[string]any{"N": 1}
		}
		return map[string]any{"P": canonField(v.Elem(), t.E)}
	case "slice":
		if v.IsNil() {
			return map[string]any{"N": 1}
		}
		items := make([]any, 0, v.Len())
		for i := 0; i < v.Len(); i++ {
			items = append(items, canonField(v.Index(i), t.E))
		}
		return map[string]any{"L": items}
	case "map":
		if v.IsNil() {
			return map[string]any{"N": 1}
		}
		keys := make([]string, 0, v.Len())
		for _, k := range v.MapKeys() {
			keys = append(keys, k.String())
		}
		sort.Strings(keys)
		kids := make([]any, 0, len(keys))
		for _, k := range keys {
			kids = append(kids, []any{hexs(k), canonField(v.MapIndex(reflect.ValueOf(k)), t.E)})
		}
		return map[string]any{"M": kids}
	case "struct":
		kids := make([]any, 0, len(t.F))
		for i := range t.F {
			name := t.F[i].Tag
			if name == "" {
				name = t.F[i].Go
			}
			kids = append(kids, []any{hexs(name), canonField(v.Field(i), &t.F[i].T)})
		}
		return map[string]any{"T": kids}
	}
	panic("bad type kind " + t.K)
}

// anyOf builds the dynamically typed value a <cval> describes (ints as int, floats as float64)
func anyOf(spec any) any {
	m, ok := spec.(map[string]any)
	if !ok {
		panic("bad cval spec")
	}
	if _, ok := m["n"]; ok {
		return nil
	}
	if b, ok := m["b"]; ok {
		return b.(bool)
	}
	if i, ok := m["i"]; ok {
		n, err := strconv.ParseInt(i.(string), 10, 64)
		if err != nil {
			panic(err)
		}
		return int(n)
	}
	if f, ok := m["f"]; ok {
		x, err := strconv.ParseFloat(f.(string), 64)
		if err != nil {
			panic(err)
		}
		return x
	}
	if h, ok := m["s"]; ok {
		b, err := hex.DecodeString(h.(string))
		if err != nil {
			panic(err)
		}
		return string(b)
	}
	if l, ok := m["l"]; ok {
		out := make([]any, 0)
		for _, x := range l.([]any) {
			out = append(out, anyOf(x))
		}
		return out
	}
	if kv, ok := m["m"]; ok {
		out := map[string]any{}
		for _, e := range kv.([]any) {
			pair := e.([]any)
			k, err := hex.DecodeString(pair[0].(string))
			if err != nil {
				panic(err)
			}
			out[string(k)] = anyOf(pair[1])
		}
		return out
	}
	panic("bad cval spec")
}

// fill stores the value an <fval> describes into v (of the type t describes): the constructor default of a field
func fill(v reflect.Value, t *TypeSpec, spec any) {
	m, ok := spec.(map[string]any)
	if !ok {
		panic("bad fval spec")
	}
	unhex := func(x any) string {
		b, err := hex.DecodeString(x.(string))
		if err != nil {
			panic(err)
		}
		return string(b)
	}
	if _, isNil := m["N"]; isNil {
		v.Set(reflect.Zero(v.Type()))
		return
	}
	switch t.K {
	case "string":
		v.SetString(unhex(m["S"]))
	case "bool":
		v.SetBool(m["B"].(bool))
	case "int":
		n, err := strconv.ParseInt(m["I"].(string), 10, 64)
		if err != nil {
			panic(err)
		}
		v.SetInt(n)
	case "uint":
		n, err := strconv.ParseUint(m["I"].(string), 10, 64)
		if err != nil {
			panic(err)
		}
		v.SetUint(n)
	case "float":
		x, err := strconv.ParseFloat(m["F"].(string), 64)
		if err != nil {
			panic(err)
		}
		v.SetFloat(x)
	case "any":
		a := anyOf(m["A"])
		if a == nil {
			v.Set(reflect.Zero(v.Type()))
		} else {
			v.Set(reflect.ValueOf(a))
		}
	case "ptr":
		p := reflect.New(v.Type().Elem())
		fill(p.Elem(), t.E, m["P"])
		v.Set(p)
	case "slice":
		items := m["L"].([]any)
		sl := reflect.MakeSlice(v.Type(), len(items), len(items))
		for i, x := range items {
			fill(sl.Index(i), t.E, x)
		}
		v.Set(sl)
	case "map":
		mp := reflect.MakeMap(v.Type())
		for _, e := range m["M"].([]any) {
			pair := e.([]any)
			ev := reflect.New(v.Type().Elem()).Elem()
			fill(ev, t.E, pair[1])
			mp.SetMapIndex(reflect.ValueOf(unhex(pair[0])), ev)
		}
		v.Set(mp)
	case "struct":
		kids := m["T"].([]any)
		for i := range t.F {
			fill(v.Field(i), &t.F[i].T, kids[i].([]any)[1])
		}
	default:
		panic("bad type kind " + t.K)
	}
}

func clip(s string) string {
	if len(s) > 240 {
		return s[len(s)-240:]
	}
	return s
}

// one start of the real App with one component holding one tagged field
// (pre != nil: the field holds that value when the component is registered)
func runRoute(yaml string, ft reflect.Type, spec *TypeSpec, tag string, pre any) any {
	var holder reflect.Value
	var runErr error
	p := hx.Guard(func() {
		st := reflect.StructOf([]reflect.StructField{{Name: "F", Type: ft, Tag: reflect.StructTag(tag)}})
		holder = reflect.New(st)
		if pre != nil {
			fill(holder.Elem().Field(0), spec, pre)
		}
		a := app.NewApp()
		runErr = a.Run(app.SetConfigLoader(loader.NewRawLoader([]byte(yaml))), app.SetComponents(holder.Interface()))
	})
	if p != "" {
		return map[string]any{"o": "panic", "d": clip(p)}
	}
	if runErr != nil {
		return map[string]any{"o": "err", "d": clip(runErr.Error())}
	}
	var f any
	p = hx.Guard(func() { f = canonField(holder.Elem().Field(0), spec) })
	if p != "" {
		return map[string]any{"o": "panic", "d": "observe: " + clip(p)}
	}
	return map[string]any{"o": "ok", "f": f}
}

func structTag(name, text string) string {
	return fmt.Sprintf(`%s:%q`, name, text)
}

func runCase(c Case) Out {
	out := Out{ID: c.ID}
	var ft reflect.Type
	if p := hx.Guard(func() { ft = goType(&c.Type) }); p != "" {
		bad := map[string]any{"o": "panic", "d": "harness: cannot build the field type: " + clip(p)}
		return Out{ID: c.ID, Get: map[string]any{"x": "bad type"}, Prefix: bad, Value: bad, Prop: bad}
	}
	if c.Pre != nil {
		// the harness's own reading of the pre-filled field (what the case says the field held before Run)
		p := hx.Guard(func() {
			v := reflect.New(ft).Elem()
			fill(v, &c.Type, c.Pre)
			out.Pre = canonField(v, &c.Type)
		})
		if p != "" {
			bad := map[string]any{"o": "panic", "d": "harness: cannot pre-fill the field: " + clip(p)}
			return Out{ID: c.ID, Get: map[string]any{"x": "bad prefill"}, Prefix: bad, Value: bad, Prop: bad, Fresh: bad}
		}
	}
	if c.Kind == "lit" {
		out.Value = runRoute(c.Yaml, ft, &c.Type, structTag("value", c.Text), c.Pre)
		if c.Pre != nil {
			out.Fresh = runRoute(c.Yaml, ft, &c.Type, structTag("value", c.Text), nil)
		}
		return out
	}
	p := hx.Guard(func() {
		a := app.NewApp()
		if err := a.Run(app.SetConfigLoader(loader.NewRawLoader([]byte(c.Yaml)))); err != nil {
			panic(err)
		}
		v := a.Get(c.Key)
		out.Get = canonAny(v)
	})
	if p != "" {
		out.Get = map[string]any{"x": "get failed: " + clip(p)}
	}
	out.Prefix = runRoute(c.Yaml, ft, &c.Type, structTag("prefix", c.Key+c.Args), c.Pre)
	out.Value = runRoute(c.Yaml, ft, &c.Type, structTag("value", "${"+c.Key+"}"+c.Args), c.Pre)
	out.Prop = runRoute(c.Yaml, ft, &c.Type, structTag("prop", c.Key+c.Args), c.Pre)
	if c.Pre != nil {
		out.Fresh = runRoute(c.Yaml, ft, &c.Type, structTag("prefix", c.Key+c.Args), nil)
	}
	return out
}

func runChild(cases []Case, limit time.Duration) ([]Out, bool) {
	ctx, cancel := context.WithTimeout(context.Background(), limit)
	defer cancel()
	cmd := exec.CommandContext(ctx, os.Args[0])
	cmd.Env = append(os.Environ(), "VERIF_C17_CHILD=1")
	data, _ := json.Marshal(Input{Cases: cases})
	cmd.Stdin = bytes.NewReader(data)
	raw, _ := cmd.CombinedOutput()
	for _, ln := range strings.Split(string(raw), "\n") {
		if strings.HasPrefix(ln, "@@JSON ") {
			var o struct {
				Outs []Out `json:"outs"`
			}
			if json.Unmarshal([]byte(ln[7:]), &o) == nil && len(o.Outs) == len(cases) {
				return o.Outs, true
			}
		}
	}
	return nil, false
}

func main() {
	hx.Quiet()
	os.Args = os.Args[:1]
	var in Input
	hx.ReadInput(&in)
	if os.Getenv("VERIF_C17_CHILD") == "1" {
		outs := make([]Out, 0, len(in.Cases))
		for _, c := range in.Cases {
			outs = append(outs, runCase(c))
		}
		hx.WriteOutput(map[string]any{"outs": outs})
		return
	}
	const chunk = 250
	outs := make([]Out, 0, len(in.Cases))
	for i := 0; i < len(in.Cases); i += chunk {
		j := i + chunk
		if j > len(in.Cases) {
			j = len(in.Cases)
		}
		part, ok := runChild(in.Cases[i:j], 120*time.Second)
		if ok {
			outs = append(outs, part...)
			continue
		}
		// isolate the case that kills or hangs the child
		for _, c := range in.Cases[i:j] {
			one, ok := runChild([]Case{c}, 20*time.Second)
			if ok {
				outs = append(outs, one...)
			} else {
				h := map[string]any{"o": "hang"}
				o := Out{ID: c.ID, Get: map[string]any{"x": "hang"}, Prefix: h, Value: h, Prop: h}
				if c.Pre != nil {
					o.Fresh = h
				}
				outs = append(outs, o)
			}
		}
	}
	hx.WriteOutput(map[string]any{"outs": outs, "facts": facts()})
}

// facts reads off the running code which variant of the value path the tree has: with the repair D-C17g the
// ${} callback splices a float64 in plain digits ("1000000"), without it in %v's exponent form ("1e+06").
func facts() map[string]any {
	spec := TypeSpec{K: "string"}
	part, ok := runChild([]Case{{ID: 0, Kind: "lit", Yaml: "k: 1000000.0\n", Key: "k",
		Text: "${k}", Type: spec}}, 20*time.Second)
	got := "?"
	if ok && len(part) == 1 {
		if m, isMap := part[0].Value.(map[string]any); isMap && m["o"] == "ok" {
			if f, isF := m["f"].(map[string]any); isF {
				if h, isS := f["S"].(string); isS {
					if b, err := hex.DecodeString(h); err == nil {
						got = string(b)
					}
				}
			}
		}
	}
	return map[string]any{"float_splice": got}
}
