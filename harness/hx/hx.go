// Package hx: helpers shared by the harness drivers (JSON in/out, panic containment, quiet logging).
package hx

import (
	"encoding/json"
	"fmt"
	"io"
	"os"

	"github.com/go-kid/ioc/syslog"
)

// VerboseEnv is set (to "1") in the environment of a driver process that runs its cases under the formatting logger, so that
// the child processes a driver re-executes itself as run the same way.
const VerboseEnv = "VERIF_HX_VERBOSE"

// ReadInput decodes the JSON document on stdin.  A top-level `"verbose": true` (or VerboseEnv=1, inherited from a parent
// driver process) switches the whole process to the formatting logger (VerboseQuiet) BEFORE anything of the container
// runs: the library caches its prefixed loggers on first use.
func ReadInput(v any) {
	data, err := io.ReadAll(os.Stdin)
	if err != nil {
		panic(err)
	}
	if err := json.Unmarshal(data, v); err != nil {
		fmt.Fprintln(os.Stderr, "bad input:", err)
		os.Exit(3)
	}
	var flag struct {
		Verbose bool `json:"verbose"`
	}
	_ = json.Unmarshal(data, &flag)
	if flag.Verbose || os.Getenv(VerboseEnv) == "1" {
		_ = os.Setenv(VerboseEnv, "1")
		VerboseQuiet()
	}
}

// WriteOutput prints the result as the single line the Python side looks for.
func WriteOutput(v any) {
	data, err := json.Marshal(v)
	if err != nil {
		panic(err)
	}
	fmt.Printf("\n@@JSON %s\n", data)
}

// Quiet silences the container's logging (logs are never compared).  Under VerboseQuiet it changes nothing: the
// formatting logger keeps itself at every level.
func Quiet() {
	syslog.Level(syslog.LvFatal)
}

// FmtLogger is a container logger at the most verbose level that FORMATS every message (so that String(), Error()
// and %v of whatever the library logs are really evaluated, as under a debug or trace log level) and throws the text
// away.  Panic / Panicf panic like the library's own logger does at every level up to LvPanic - unless NoPanic is
// set: then they only format, which is what the library's logger does (as far as outcomes go) at LvFatal, the level of
// Quiet().  Fatal / Fatalf panic: the library's own logger never returns from them either.
type FmtLogger struct{ NoPanic bool }

func (l FmtLogger) Level(syslog.Lv) syslog.Logger { return l }
func (l FmtLogger) Pref(any) syslog.Logger        { return l }
func fmtDiscard(v ...any)                         { _, _ = fmt.Fprintln(io.Discard, v...) }
func fmtDiscardf(f string, v ...any)              { _, _ = fmt.Fprintf(io.Discard, f, v...) }
func (FmtLogger) Trace(v ...any)                  { fmtDiscard(v...) }
func (FmtLogger) Tracef(f string, v ...any)       { fmtDiscardf(f, v...) }
func (FmtLogger) Debug(v ...any)                  { fmtDiscard(v...) }
func (FmtLogger) Debugf(f string, v ...any)       { fmtDiscardf(f, v...) }
func (FmtLogger) Info(v ...any)                   { fmtDiscard(v...) }
func (FmtLogger) Infof(f string, v ...any)        { fmtDiscardf(f, v...) }
func (FmtLogger) Warn(v ...any)                   { fmtDiscard(v...) }
func (FmtLogger) Warnf(f string, v ...any)        { fmtDiscardf(f, v...) }
func (FmtLogger) Error(v ...any)                  { fmtDiscard(v...) }
func (FmtLogger) Errorf(f string, v ...any)       { fmtDiscardf(f, v...) }
func (l FmtLogger) Panic(v ...any) {
	fmtDiscard(v...)
	if !l.NoPanic {
		panic(v)
	}
}
func (l FmtLogger) Panicf(f string, v ...any) {
	if !l.NoPanic {
		panic(fmt.Sprintf(f, v...))
	}
	fmtDiscardf(f, v...)
}
func (FmtLogger) Fatal(v ...any)            { fmtDiscard(v...); panic(v) }
func (FmtLogger) Fatalf(f string, v ...any) { panic(fmt.Sprintf(f, v...)) }

var verboseOn bool

// Verbose installs FmtLogger.  Call it once at process start: the library caches its prefixed loggers.
func Verbose() { verboseOn = true; syslog.SetLogger(FmtLogger{}) }

// VerboseQuiet installs the FmtLogger whose outcomes are those of Quiet(): everything is formatted, nothing is printed,
// Panic / Panicf do not panic.  Call it once at process start (ReadInput does, on the `verbose` flag of the input).
func VerboseQuiet() {
	verboseOn = true
	syslog.SetLogger(FmtLogger{NoPanic: true})
	if os.Getenv("VERIF_HX_TRACE") == "1" { // diagnostics: which processes of a driver run went verbose
		fmt.Fprintf(os.Stderr, "@@HXVERBOSE pid=%d args=%d\n", os.Getpid(), len(os.Args))
	}
}

// IsVerbose: has a formatting logger been installed in this process?
func IsVerbose() bool { return verboseOn }

// Guard runs f and converts a panic into a string ("" = no panic).
func Guard(f func()) (panicked string) {
	defer func() {
		if r := recover(); r != nil {
			panicked = fmt.Sprint(r)
			if panicked == "" {
				panicked = "panic"
			}
		}
	}()
	f()
	return ""
}
