// Package hx: helpers shared by the harness drivers (JSON in/out, panic containment, quiet logging).
package hx

import (
	"encoding/json"
	"fmt"
	"io"
	"os"

	"github.com/go-kid/ioc/syslog"
)

// ReadInput decodes the JSON document on stdin.
func ReadInput(v any) {
	data, err := io.ReadAll(os.Stdin)
	if err != nil {
		panic(err)
	}
	if err := json.Unmarshal(data, v); err != nil {
		fmt.Fprintln(os.Stderr, "bad input:", err)
		os.Exit(3)
	}
}

// WriteOutput prints the result as the single line the Python side looks for.
func WriteOutput(v any) {
	data, err := json.Marshal(v)
	if err != nil {
		panic(err)
	}
	fmt.Printf("\n@@JSON %s\n", data)
}

// Quiet silences the container's logging (logs are never compared).
func Quiet() {
	syslog.Level(syslog.LvFatal)
}

// Guard runs f and converts a panic into a string ("" = no panic).
func Guard(f func()) (panicked string) {
	defer func() {
		if r := recover(); r != nil {
			panicked = fmt.Sprint(r)
			if panicked == "" {
				panicked = "panic"
			}
		}
	}()
	f()
	return ""
}
