// Package hx: helpers shared by the harness drivers (JSON in/out, panic containment, quiet logging).
package hx

import (
	"encoding/json"
	"fmt"
	"io"
	"os"

	"github.com/go-kid/ioc/syslog"
)

// ReadInput decodes the JSON document on stdin.
func ReadInput(v any) {
	data, err := io.ReadAll(os.Stdin)
	if err != nil {
		panic(err)
	}
	if err := json.Unmarshal(data, v); err != nil {
		fmt.Fprintln(os.Stderr, "bad input:", err)
		os.Exit(3)
	}
}

// WriteOutput prints the result as the single line the Python side looks for.
func WriteOutput(v any) {
	data, err := json.Marshal(v)
	if err != nil {
		panic(err)
	}
	fmt.Printf("\n@@JSON %s\n", data)
}

// Quiet silences the container's logging (logs are never compared).
func Quiet() {
	syslog.Level(syslog.LvFatal)
}

// FmtLogger is a container logger at the most verbose level that FORMATS every message (so that String(), Error()
// and %v of whatever the library logs are really evaluated, as under a debug or trace log level) and throws the text
// away.  Panic / Panicf panic like the library's own logger does at every level up to LvPanic.
type FmtLogger struct{}

func (l FmtLogger) Level(syslog.Lv) syslog.Logger { return l }
func (l FmtLogger) Pref(any) syslog.Logger        { return l }
func fmtDiscard(v ...any)                         { _, _ = fmt.Fprintln(io.Discard, v...) }
func fmtDiscardf(f string, v ...any)              { _, _ = fmt.Fprintf(io.Discard, f, v...) }
func (FmtLogger) Trace(v ...any)                  { fmtDiscard(v...) }
func (FmtLogger) Tracef(f string, v ...any)       { fmtDiscardf(f, v...) }
func (FmtLogger) Debug(v ...any)                  { fmtDiscard(v...) }
func (FmtLogger) Debugf(f string, v ...any)       { fmtDiscardf(f, v...) }
func (FmtLogger) Info(v ...any)                   { fmtDiscard(v...) }
func (FmtLogger) Infof(f string, v ...any)        { fmtDiscardf(f, v...) }
func (FmtLogger) Warn(v ...any)                   { fmtDiscard(v...) }
func (FmtLogger) Warnf(f string, v ...any)        { fmtDiscardf(f, v...) }
func (FmtLogger) Error(v ...any)                  { fmtDiscard(v...) }
func (FmtLogger) Errorf(f string, v ...any)       { fmtDiscardf(f, v...) }
func (FmtLogger) Panic(v ...any)                  { fmtDiscard(v...); panic(v) }
func (FmtLogger) Panicf(f string, v ...any)       { panic(fmt.Sprintf(f, v...)) }
func (FmtLogger) Fatal(v ...any)                  { fmtDiscard(v...); panic(v) }
func (FmtLogger) Fatalf(f string, v ...any)       { panic(fmt.Sprintf(f, v...)) }

// Verbose installs FmtLogger.  Call it once at process start: the library caches its prefixed loggers.
func Verbose() { syslog.SetLogger(FmtLogger{}) }

// Guard runs f and converts a panic into a string ("" = no panic).
func Guard(f func()) (panicked string) {
	defer func() {
		if r := recover(); r != nil {
			panicked = fmt.Sprint(r)
			if panicked == "" {
				panicked = "panic"
			}
		}
	}()
	f()
	return ""
}
